"""Trash-directory layout according to the spec, computed over snapshots
(dicts virtual path -> entry tuple, see sim/world.py)."""
from __future__ import annotations

import posixpath

from . import trashinfo as TI


def fsb(s):
    return s.encode('utf-8', 'surrogateescape')


def fss(b):
    return b.decode('utf-8', 'surrogateescape')


def is_dir(s, p):
    e = s.get(p)
    return e is not None and e[0] == 'd'


def resolve(s, p, depth=0):
    """realpath of virtual path ``p`` over snapshot ``s`` (follows symlinks in
    every component); returns None if it does not exist or loops"""
    if depth > 40:
        return None
    if p == '/':
        return '/'
    cur = ''
    parts = [x for x in p.split('/') if x]
    for i, comp in enumerate(parts):
        if comp == '.':
            continue
        if comp == '..':
            cur = posixpath.dirname(cur)
            if cur == '/':
                cur = ''
            continue
        nxt = cur + '/' + comp
        e = s.get(nxt)
        if e is None:
            return None
        if e[0] == 'l':
            t = e[1]
            rest = '/'.join(parts[i + 1:])
            base = t if t.startswith('/') else (cur or '/') + '/' + t
            full = base + ('/' + rest if rest else '')
            return resolve(s, posixpath.normpath(full) if '..' not in full.split('/') else full, depth + 1)
        cur = nxt
    return cur or '/'


def volume_of(mounts, p):
    best = '/'
    for m in mounts:
        if m != '/' and (p == m or p.startswith(m + '/')) and len(m) > len(best):
            best = m
    return best


def trash_dirs_in(s):
    """every directory T of the snapshot that has a T/info or T/files
    subdirectory"""
    out = set()
    for k, e in s.items():
        if e[0] == 'd':
            b = posixpath.basename(k)
            if b in ('info', 'files'):
                out.add(posixpath.dirname(k))
    return out


def infos(s, T):
    pre = T + '/info/'
    out = set()
    for k, e in s.items():
        if k.startswith(pre) and '/' not in k[len(pre):] and k.endswith('.trashinfo') and e[0] != 'd':
            out.add(k[len(pre):-len('.trashinfo')])
    return out


def payloads(s, T):
    pre = T + '/files/'
    out = set()
    for k in s:
        if k.startswith(pre) and '/' not in k[len(pre):]:
            out.add(k[len(pre):])
    return out


def topdir_of(T, mounts, uid=None):
    """$topdir for a trash directory path of the form $topdir/.Trash/$uid or
    $topdir/.Trash-$uid; None otherwise"""
    d, b = posixpath.split(T)
    if b.startswith('.Trash-') and b[7:].isdigit() and (uid is None or b[7:] == str(uid)):
        return d or '/'
    if b.isdigit() and posixpath.basename(d) == '.Trash' and (uid is None or b == str(uid)):
        return posixpath.dirname(d) or '/'
    return None


def decode_location(content, base):
    """absolute original location (str, surrogate-escaped) of an info file's
    content; relative paths are joined to ``base``"""
    inf = TI.Info(content)
    if inf.path is None:
        return None
    p = fss(inf.path)
    if p.startswith('/'):
        return p
    if base is None:
        return None
    return (base if base != '/' else '') + '/' + p
