"""trash-restore reply grammar (from the property statement): a
comma-separated list of indices and inclusive 'a-b' ranges."""
from __future__ import annotations

import re

CANON = re.compile(r'^[0-9]+$')


class Invalid(Exception):
    pass


def parse(reply, n):
    """-> (indices, determinate)

    indices: list of ints denoted by the reply, or None when the reply is
    invalid (malformed part or an index outside 0..n-1).
    determinate: False when the reply contains a token whose meaning the
    statement leaves open (signs, inner blanks, '_' or non-ASCII digits):
    then both 'invalid' and the int() reading are acceptable."""
    determinate = True
    out = []
    bad = False
    for part in reply.split(','):
        toks = part.split('-')
        if len(toks) == 1:
            nums = [toks[0]]
            rng = False
        elif len(toks) == 2:
            nums = toks
            rng = True
        else:
            bad = True            # '1-2-3', '--', '-1-2': not an index, not a range
            continue
        vals = []
        for t in nums:
            if CANON.match(t):
                vals.append(int(t))
            elif t == '':
                bad = True        # empty part / open interval
            else:
                try:
                    v = int(t)
                except ValueError:
                    bad = True
                else:
                    determinate = False
                    vals.append(v)
        if len(vals) != len(nums):
            continue
        if rng:
            lo, hi = vals
            if hi - lo > 10000:
                # a huge range necessarily leaves 0..n-1 (n is small)
                if lo < 0 or hi >= n:
                    bad = True
                    continue
            out.extend(range(lo, hi + 1))
        else:
            out.append(vals[0])
    if bad:
        return None, determinate
    for i in out:
        if not (0 <= i < n):
            return None, determinate
    return out, determinate


def in_scope(location, scope):
    """component-boundary prefix test"""
    if scope == '/':
        return True
    return location == scope or location.startswith(scope + '/')
