"""Spec-level reference model (FreeDesktop.org Trash 1.0).  Shares no code
with trashcli and does not import it."""
