"""Byte-level .trashinfo codec written from the specification."""
from __future__ import annotations

import datetime as _dt
import re

HEX = b'0123456789abcdefABCDEF'
# RFC 2396 unreserved characters: alphanum | mark
UNRESERVED = frozenset(b'abcdefghijklmnopqrstuvwxyzABCDEFGHIJKLMNOPQRSTUVWXYZ0123456789-_.!~*\'()')
DATE_RE = re.compile(rb'^(\d{4})-(\d{2})-(\d{2})T(\d{2}):(\d{2}):(\d{2})$')


def pct_decode(v):
    """percent-decode bytes -> bytes.  A '%' not followed by two hex digits is
    kept literally (the spec does not say; this is what every decoder does)."""
    out = bytearray()
    i = 0
    n = len(v)
    while i < n:
        c = v[i]
        if c == 0x25 and i + 2 < n and v[i + 1] in HEX and v[i + 2] in HEX:
            out.append(int(v[i + 1:i + 3], 16))
            i += 3
        else:
            out.append(c)
            i += 1
    return bytes(out)


def pct_encode(b):
    """the canonical encoding: everything but unreserved and '/' escaped"""
    out = bytearray()
    for c in b:
        if c in UNRESERVED or c == 0x2f:
            out.append(c)
        else:
            out.extend(b'%%%02X' % c)
    return bytes(out)


def lines(content):
    # the readers take a .trashinfo for what it is, a text file: CR LF and bare CR end a line as LF does (files written on the
    # Windows side of a shared volume, by sync tools, by editors set to DOS line ends)
    return content.replace(b'\r\n', b'\n').replace(b'\r', b'\n').split(b'\n')


def first_value(content, key):
    k = key + b'='
    for ln in lines(content):
        if ln.startswith(k):
            return ln[len(k):]
    return None


def parse_date(v):
    """bytes -> datetime or None"""
    if v is None:
        return None
    m = DATE_RE.match(v)
    if not m:
        return None
    try:
        y, mo, d, h, mi, s = (int(x) for x in m.groups())
        if y < 1:
            return None
        return _dt.datetime(y, mo, d, h, mi, s)
    except ValueError:
        return None


class Info(object):
    __slots__ = ('raw', 'path_value', 'path', 'date_value', 'date', 'header_ok')

    def __init__(self, content):
        self.raw = content
        self.path_value = first_value(content, b'Path')
        self.path = pct_decode(self.path_value) if self.path_value is not None else None
        self.date_value = first_value(content, b'DeletionDate')
        self.date = parse_date(self.date_value)
        ls = lines(content)
        self.header_ok = bool(ls) and ls[0] == b'[Trash Info]'

    @property
    def well_formed(self):
        return self.path is not None and self.date is not None


def conformance_problems(content, relative_expected):
    """list of reasons why ``content`` is not what a conforming writer
    produces for a freshly trashed file"""
    probs = []
    ls = content.split(b'\n')
    if len(ls) != 4 or ls[3] != b'':
        probs.append('not exactly three newline-terminated lines')
    if not ls or ls[0] != b'[Trash Info]':
        probs.append('first line is not [Trash Info]')
    if len(ls) < 3:
        return probs
    if not ls[1].startswith(b'Path='):
        probs.append('second line is not Path=')
    else:
        v = ls[1][5:]
        i = 0
        while i < len(v):
            c = v[i]
            if c == 0x25:
                if not (i + 2 < len(v) and v[i + 1] in HEX and v[i + 2] in HEX):
                    probs.append("stray '%' in Path value")
                    break
                i += 3
                continue
            if c not in UNRESERVED and c != 0x2f:
                probs.append('character %r not allowed unescaped in Path (RFC 2396)' % bytes([c]))
                break
            i += 1
        dec = pct_decode(v)
        if relative_expected:
            if dec.startswith(b'/'):
                probs.append('Path is absolute in a $topdir trash directory')
            if b'..' in dec.split(b'/'):
                probs.append("Path contains '..'")
        else:
            if not dec.startswith(b'/'):
                probs.append('Path is relative in the home trash directory')
    if not ls[2].startswith(b'DeletionDate='):
        probs.append('third line is not DeletionDate=')
    elif parse_date(ls[2][13:]) is None:
        probs.append('DeletionDate is not YYYY-MM-DDThh:mm:ss')
    return probs
