"""The trash as a bag of (trash dir, name, original location, date, payload),
read from a snapshot by the rules of the spec - independent of trashcli."""
from __future__ import annotations

import posixpath

from . import layout as ML
from . import trashinfo as TI


def home_trash(env):
    x = env.get('XDG_DATA_HOME')
    if x:
        return x + '/Trash'
    if env.get('HOME'):
        return env['HOME'] + '/.local/share/Trash'
    return None


def top_state(s, m):
    """state of $topdir/.Trash: 'absent' | 'ok' | 'symlink' | 'notdir' | 'nonsticky'"""
    p = (m if m != '/' else '') + '/.Trash'
    e = s.get(p)
    if e is None:
        return 'absent'
    if e[0] == 'l':
        return 'symlink'
    if e[0] != 'd':
        return 'notdir'
    if not (e[1] & 0o1000):
        return 'nonsticky'
    return 'ok'


def usable_trash_dirs(s, env, uid, mounts):
    """[(trash dir path, base for relative paths or None, kind)] in the order
    home, then per mount point .Trash/$uid, .Trash-$uid"""
    out = []
    h = home_trash(env)
    if h is not None:
        out.append((h, None, 'home'))
    for m in mounts:
        pre = m if m != '/' else ''
        if top_state(s, m) == 'ok':
            t = pre + '/.Trash/%d' % uid
            r = ML.resolve(s, t)
            if r is not None and ML.is_dir(s, r):
                out.append((t, m, 'top'))
        a = pre + '/.Trash-%d' % uid
        r = ML.resolve(s, a)
        if r is not None and ML.is_dir(s, r):
            out.append((a, m, 'alt'))
    return out


class Entry(object):
    __slots__ = ('tdir', 'name', 'info', 'payload', 'location', 'date', 'raw', 'has_payload',
                 'parsed', 'kind')

    def key(self):
        return (self.tdir, self.name)

    def __repr__(self):
        return 'Entry(%s/%s -> %r @ %s)' % (self.tdir, self.name, self.location, self.date)


def entries_of(s, read, T, base, kind):
    """entries of trash dir T (T may be reached through symlinks)"""
    real = ML.resolve(s, T)
    if real is None:
        return []
    out = []
    for N in sorted(ML.infos(s, real)):
        e = Entry()
        e.tdir = T
        e.name = N
        e.info = T + '/info/' + N + '.trashinfo'
        e.payload = T + '/files/' + N
        e.kind = kind
        ip = real + '/info/' + N + '.trashinfo'
        ie = s.get(ip)
        if ie is not None and ie[0] == 'l':
            ip = ML.resolve(s, ip)
            ie = s.get(ip) if ip else None
        e.raw = read(ip) if ie is not None and ie[0] == 'f' else None
        e.has_payload = (real + '/files/' + N) in s
        if e.raw is None:
            e.parsed = None
            e.location = None
            e.date = None
        else:
            inf = TI.Info(e.raw)
            e.parsed = inf
            e.date = inf.date
            if inf.path is None:
                e.location = None
            else:
                p = ML.fss(inf.path)
                if p.startswith('/'):
                    e.location = p
                elif base is not None:
                    e.location = posixpath.join(base, p) if p else base
                else:
                    e.location = None      # relative path in the home trash: no base defined
        out.append(e)
    return out


def scan(s, read, env, uid, mounts):
    out = []
    for T, base, kind in usable_trash_dirs(s, env, uid, mounts):
        out.extend(entries_of(s, read, T, base, kind))
    return out


def fmt_date(d):
    return d.isoformat(' ') if d is not None else '????-??-?? ??:??:??'


def list_line(e):
    return '%s %s' % (fmt_date(e.date), e.location)


def orphans(s, T):
    real = ML.resolve(s, T)
    if real is None:
        return set()
    return ML.payloads(s, real) - ML.infos(s, real)
