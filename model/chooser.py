"""Which trash directory the spec prescribes for a file (C07), as a function
of the snapshot, mount table, environment, uid and options."""
from __future__ import annotations

import posixpath

from . import bag as MB
from . import layout as ML


def deepest_existing(s, p):
    """resolved path of the deepest existing ancestor of p (p itself if it
    exists), following symlinks"""
    cur = p
    while True:
        r = ML.resolve(s, cur)
        if r is not None:
            return r
        if cur in ('/', ''):
            return '/'
        cur = posixpath.dirname(cur) or '/'


def volume_of_path(s, mounts, p):
    return ML.volume_of(mounts, deepest_existing(s, p))


def prescribed(s, mounts, env, uid, file_parent_real, trash_dir_opt=None, cwd='/', fallback=False):
    """-> (ordered list of acceptable trash dirs as given paths, reasons)
    The first usable candidate is THE prescribed directory; the list holds
    exactly one element, or none when the spec leaves no directory."""
    vf = ML.volume_of(mounts, file_parent_real)
    why = []
    if trash_dir_opt:
        td = trash_dir_opt if trash_dir_opt.startswith('/') else posixpath.normpath(posixpath.join(cwd, trash_dir_opt))
        if volume_of_path(s, mounts, td) == vf:
            return [td], ['--trash-dir on the file\'s volume']
        return [], ['--trash-dir is on another volume']
    h = MB.home_trash(env)
    if h is not None and h.startswith('/'):
        if volume_of_path(s, mounts, h) == vf:
            return [h], ['file is on the volume of the home trash']
        why.append('home trash on another volume')
    top = vf
    pre = top if top != '/' else ''
    if MB.top_state(s, top) == 'ok':
        t = pre + '/.Trash/%d' % uid
        if volume_of_path(s, mounts, t) == vf:
            return [t], why + ['$topdir/.Trash passes the checks']
        why.append('.Trash/$uid resolves to another volume')
    a = pre + '/.Trash-%d' % uid
    ae = s.get(a)
    if ae is None or ML.resolve(s, a) is not None and ML.is_dir(s, ML.resolve(s, a)):
        if volume_of_path(s, mounts, a) == vf:
            return [a], why + ['$topdir/.Trash-$uid']
        why.append('.Trash-$uid resolves to another volume')
    else:
        why.append('.Trash-$uid exists and is not a directory')
    if fallback and h is not None:
        return [h], why + ['home fallback enabled twice']
    return [], why
