"""Shell-style pattern matching written from the documentation of fnmatch
(case-sensitive): '*' any string (also '/'), '?' any single character,
'[seq]' any character in seq, '[!seq]' any character not in seq, ranges a-z,
a ']' first in the set is literal, an unterminated '[' is a literal '['.
Backtracking matcher; no translation to regular expressions."""
from __future__ import annotations


def _parse_set(pat, i):
    """pat[i] == '['.  Returns (negated, items, next_index) or None if the
    bracket is not terminated.  items: list of (lo, hi)"""
    j = i + 1
    n = len(pat)
    neg = False
    if j < n and pat[j] == '!':
        neg = True
        j += 1
    start = j
    if j < n and pat[j] == ']':
        j += 1
    while j < n and pat[j] != ']':
        j += 1
    if j >= n:
        return None
    body = pat[start:j]
    items = []
    k = 0
    # fnmatch: a '-' forms a range only between two characters
    while k < len(body):
        c = body[k]
        if k + 2 < len(body) and body[k + 1] == '-':
            lo, hi = c, body[k + 2]
            items.append((lo, hi))      # empty if lo > hi
            k += 3
        else:
            items.append((c, c))
            k += 1
    return neg, items, j + 1


def match(name, pat):
    return _m(name, 0, pat, 0)


def _m(s, si, p, pi):
    ns, np_ = len(s), len(p)
    while pi < np_:
        c = p[pi]
        if c == '*':
            # collapse consecutive stars
            while pi < np_ and p[pi] == '*':
                pi += 1
            if pi == np_:
                return True
            for k in range(si, ns + 1):
                if _m(s, k, p, pi):
                    return True
            return False
        if c == '?':
            if si >= ns:
                return False
            si += 1
            pi += 1
            continue
        if c == '[':
            ps = _parse_set(p, pi)
            if ps is None:
                if si >= ns or s[si] != '[':
                    return False
                si += 1
                pi += 1
                continue
            neg, items, nxt = ps
            if si >= ns:
                return False
            ch = s[si]
            hit = any(lo <= ch <= hi for lo, hi in items)
            if hit == neg:
                return False
            si += 1
            pi = nxt
            continue
        if si >= ns or s[si] != c:
            return False
        si += 1
        pi += 1
    return si == ns


def rm_matches(location, pattern):
    """trash-rm semantics: base name, or full path when the pattern starts
    with '/'"""
    if pattern.startswith('/'):
        return match(location, pattern)
    base = location.rsplit('/', 1)[-1] if '/' in location else location
    return match(base, pattern)
