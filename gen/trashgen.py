"""Generators of trash content (build steps) for the reader commands."""
from __future__ import annotations

import datetime as _dt

from . import base as G

SPEC_SAFE = frozenset(b'abcdefghijklmnopqrstuvwxyzABCDEFGHIJKLMNOPQRSTUVWXYZ0123456789-_.!~*\'()/')


def pct(s):
    """canonical percent-encoding of a str (surrogate-escaped) path"""
    out = []
    for c in s.encode('utf-8', 'surrogateescape'):
        out.append(chr(c) if c in SPEC_SAFE else '%%%02X' % c)
    return ''.join(out)


def rand_date(rng, around=None, spread_days=400):
    around = around or _dt.datetime(2024, 1, 1, 12, 0, 0)
    d = around - _dt.timedelta(seconds=rng.randrange(0, spread_days * 86400))
    return d.replace(microsecond=0)


def dst_edge_dates(rng, k=6, year=None):
    """wall-clock readings around the DST changes of the simulated zones (sim.proc._rule_active: 'north' 29 March / 25 October,
    'south' 4 October / 5 April, both at 02:00 standard time): inside the skipped hour, inside the repeated one, minutes before
    and after.  Dates are literal in a .trashinfo; whoever runs them through the local time zone meets these."""
    y = year or rng.randint(1996, 2036)
    mo, da = rng.choice([(3, 29), (10, 25), (10, 4), (4, 5)])
    base = _dt.datetime(y, mo, da, 0, 0, 0)
    mins = rng.sample([59, 90, 110, 119, 120, 125, 130, 150, 170, 179, 180, 181, 190, 210, 230, 250], k)
    return [base + _dt.timedelta(minutes=m, seconds=rng.choice([0, 0, 1, 59])) for m in mins]


def dst_clock(rng, start=None):
    """a case['clock'] of a machine whose zone has DST rules"""
    ck = {'utcoffset_s': rng.choice([0, 3600, -18000, 34200, 7200]), 'dst': {'has': True, 'on': rng.random() < 0.5}}
    if start:
        ck['start'] = start
    return ck


def iso(d):
    return '%04d-%02d-%02dT%02d:%02d:%02d' % (d.year, d.month, d.day, d.hour, d.minute, d.second)


def trash_locations(L, include_insecure=True):
    """[(trash dir, topdir or None, usable?)] that can be populated in layout L"""
    out = [(G.home_trash_of(L['env']), None, True)]
    uid = L['uid']
    for v in L['vols']:
        ts = L['trash'][v]['top']
        as_ = L['trash'][v]['alt']
        if ts == 'sticky':
            out.append((v + '/.Trash/%d' % uid, v, True))
        elif include_insecure and ts in ('nonsticky', 'nonsticky_sgid', 'nonsticky_suid', 'link_sticky', 'link_nonsticky'):
            out.append((v + '/.Trash/%d' % uid, v, False))
        if as_ == 'dir':
            out.append((v + '/.Trash-%d' % uid, v, True))
        elif as_ == 'absent':
            out.append((v + '/.Trash-%d' % uid, v, True))
    return out


BULK_SIZES = [101, 130, 257, 501, 513, 1001, 1027]


def populate(rng, L, steps, n=None, names=None, allow_invalid=False, now=None, only_usable=True,
             kinds=('file', 'file', 'dir', 'link'), date_fn=None, bulk=0.0):
    """add n well-formed trashed entries spread over the layout's trash
    directories.  Returns [(tdir, name, location, date)]"""
    locs = [t for t in trash_locations(L, include_insecure=not only_usable) if t[2] or not only_usable]
    if n is None:
        n = rng.choice([0, 1, 2, 3, 4, 6, 9])
    made = []
    used = set()
    pool = names or G.pick_names(rng, max(3, n), allow_invalid=allow_invalid)
    # the volume mounted at / has top-directory trash dirs too (/.Trash-$uid): entries get there when the home trash was
    # unusable once, through sudo without -H, --trash-dir ...; every reader scans them like those of any other volume
    root_alt = ('/.Trash-%d' % L['uid'], '/', True)
    bulkdir = None
    if bulk and rng.random() < bulk:
        # one trash directory holds hundreds of entries, just past a round number (whoever reads, sorts, numbers or purges in
        # batches reaches the batch boundary)
        n = rng.choice(BULK_SIZES) + rng.choice([0, 1, 2])
        bulkdir = rng.choice(locs)
    for i in range(n):
        tdir, top, usable = rng.choice(locs) if rng.random() >= 0.12 else root_alt
        base = rng.choice(pool)
        if bulkdir is not None and i >= 6:
            tdir, top, usable = bulkdir
            base = base + '-%d' % i
        # the trash name: base name, possibly with a collision suffix
        short = base
        while len(short.encode('utf-8', 'surrogateescape')) > 200:
            short = short[:-1]
        nm = short
        k = 0
        while (tdir, nm) in used:
            k += 1
            nm = short + '_%d' % k
        used.add((tdir, nm))
        if top is None:
            odir = rng.choice([L['home'] + '/w', L['home'], L['home'] + '/w/sub/deeper', '/tmp'])
            loc = odir + '/' + base
            pv = pct(loc)
        elif top == '/':
            odir = rng.choice(['/srv', '/opt/data', '/tmp', '/srv/deep/er'])
            loc = odir + '/' + base
            pv = pct(loc[1:]) if rng.random() < 0.85 else pct(loc)
        else:
            odir = rng.choice([L['work'].get(top, top + '/docs'), L['work'].get(top, top + '/docs') + '/sub', top, top + '/tmp', top + '/archive/old', top + '/Photos',
                               top + '/home', top + '/=eq', top + '/Path=x', top + '/ lead'])
            loc = odir + '/' + base
            pv = pct(loc[len(top) + 1:]) if rng.random() < 0.85 else pct(loc)
        if rng.random() < 0.03 and top != '/':
            # a deep location of multi-byte names: the escaped Path value is three times as long as the path (5-12 KB)
            deep = '/'.join(rng.choice(['é', 'ж', '日']) * rng.choice([60, 80]) + str(k_) for k_ in range(rng.randint(9, 13)))
            loc = odir + '/' + deep + '/' + base
            pv = pct(loc) if (top is None or pv.startswith('/')) else pct(loc[len(top) + 1:])
        d = date_fn(rng) if date_fn else rand_date(rng, now)
        k_ = rng.choice(kinds)
        if k_ == 'link' and rng.random() < 0.5:
            k_ = rng.choice(['link_absdir', 'link_absdir', 'link_absfile', 'link_loop'])     # links whose target exists (outside the trash); a link to itself
        G.add_trashed(steps, tdir, nm, pv, iso(d), k_, tag=str(i))
        made.append((tdir, nm, loc, iso(d)))
        if rng.random() < 0.06 and len(nm.encode('utf-8', 'surrogateescape')) < 180 and (tdir, nm + '.trashinfo') not in used:
            # next to X an entry called X.trashinfo (somebody trashed a stray info file): its info is X.trashinfo.trashinfo, its
            # payload files/X.trashinfo - whoever strips the suffix carelessly lands on the payload of X
            used.add((tdir, nm + '.trashinfo'))
            d2 = date_fn(rng) if date_fn else rand_date(rng, now)
            G.add_trashed(steps, tdir, nm + '.trashinfo', pv + '.trashinfo', iso(d2), rng.choice(['file', 'file', 'none']), tag='%d-ti' % i)
            made.append((tdir, nm + '.trashinfo', loc + '.trashinfo', iso(d2)))
    return made


def occupy(rng, steps, made, pool, share=0.35):
    """the live file system at recorded original locations: for a share of the entries ``made`` (as returned by populate)
    something new sits at the location they were trashed from - a symlink to a sibling that carries another name of the
    pool, a dangling symlink, a file, a directory.  A reader must take the recorded name, not what is there now.
    Returns {location: kind}"""
    occ = {}
    locs = set(m[2] for m in made)
    for _tdir, _nm, loc, _d in made:
        if loc in occ or rng.random() >= share:
            continue
        if any(o != loc and (o.startswith(loc + '/') or loc.startswith(o + '/')) for o in locs):
            continue
        d, base = loc.rsplit('/', 1)
        kind = rng.choice(['link_sibling', 'link_sibling', 'dangling', 'file', 'dir'])
        if kind == 'link_sibling':
            others = [n for n in pool if n != base and (d + '/' + n) not in locs and (d + '/' + n) not in occ and '/' not in n and n not in ('.', '..')]
            if not others:
                kind = 'dangling'
            else:
                tn = rng.choice(others)
                steps.append(['f', d + '/' + tn, 'live sibling of ' + base, 0o644])
                steps.append(['l', loc, tn])
                occ[d + '/' + tn] = 'sibling-target'
        if kind == 'dangling':
            steps.append(['l', loc, rng.choice(['gone-away', '/no/such/place'])])
        elif kind == 'file':
            steps.append(['f', loc, 'newer file at the old place', 0o644])
        elif kind == 'dir':
            steps.append(['d', loc, 0o755])
        occ[loc] = kind
    return occ


MALFORMED = ['nonsuffix', 'empty', 'truncated', 'binary', 'nonutf8', 'nopath', 'nodate', 'baddate',
             'nopayload', 'orphan', 'dir_in_info', 'infodir_named_trashinfo', 'only_header', 'crlf', 'offsetdate', 'pctnonutf8', 'pctcontrol',
             'info_dangling_link', 'info_loop_link', 'info_link_to_dir', 'stray_dangling_link', 'orphan_longname', 'nopayload_longname', 'info_named_by_dots', 'farfuture_nopath', 'equals_lines']


def add_malformed(rng, steps, tdir, kind, tag, path_value=None):
    steps.append(['d', tdir, 0o700])
    steps.append(['d', tdir + '/files', 0o700])
    steps.append(['d', tdir + '/info', 0o700])
    # the file name of a malformed entry is as free as any other (it shows up in diagnostics): '%', blanks, braces
    nm = 'mal_%s_%s' % (kind, tag) + rng.choice(['', '', '', '%20x', ' 100%', '%s', '{0}', '%(name)s'])
    ip = tdir + '/info/' + nm + '.trashinfo'
    fp = tdir + '/files/' + nm
    if kind == 'nonsuffix':
        steps.append(['f', tdir + '/info/' + nm + '.txt', 'junk', 0o600])
    elif kind == 'empty':
        steps.append(['f', ip, '', 0o600])
        steps.append(['f', fp, 'p', 0o644])
    elif kind == 'truncated':
        steps.append(['f', ip, '[Trash Info]\nPa', 0o600])
        steps.append(['f', fp, 'p', 0o644])
    elif kind == 'binary':
        steps.append(['f', ip, '\x00\x01\x02\x7f\x00ELF\x00Path=', 0o600])
        steps.append(['f', fp, 'p', 0o644])
    elif kind == 'nonutf8':
        steps.append(['f', ip, '[Trash Info]\nPath=/home/u/w/latin\udce9\nDeletionDate=2020-01-01T00:00:00\n', 0o600])
        steps.append(['f', fp, 'p', 0o644])
    elif kind == 'nopath':
        steps.append(['f', ip, '[Trash Info]\nDeletionDate=2020-01-01T00:00:00\n', 0o600])
        steps.append(['f', fp, 'p', 0o644])
    elif kind == 'farfuture_nopath':
        # no Path, and the 'never' date some tools write: the last second of year 9999 (any arithmetic on it overflows)
        steps.append(['f', ip, '[Trash Info]\nDeletionDate=%s\n' % rng.choice(['9999-12-31T23:59:59', '9999-12-31T23:59:59', '9999-12-20T00:00:00']), 0o600])
        if rng.random() < 0.5:
            steps.append(['f', fp, 'p', 0o644])
    elif kind == 'nodate':
        steps.append(['f', ip, '[Trash Info]\nPath=%s\n' % (path_value or '/home/u/w/' + nm), 0o600])
        steps.append(['f', fp, 'p', 0o644])
    elif kind == 'baddate':
        steps.append(['f', ip, '[Trash Info]\nPath=%s\nDeletionDate=%s\n' % (
            path_value or '/home/u/w/' + nm, rng.choice(['yesterday', '2020-13-45T99:00:00', '2020-01-01', '2020-01-01 00:00:00', ''])), 0o600])
        steps.append(['f', fp, 'p', 0o644])
    elif kind == 'offsetdate':
        # a date some other writers produce: with a UTC offset / fraction / Z - not the spec format
        steps.append(['f', ip, '[Trash Info]\nPath=%s\nDeletionDate=%s\n' % (
            path_value or '/home/u/w/' + nm, rng.choice(['2003-03-03T10:00:00+01:00', '2003-03-03T10:00:00Z', '2003-03-03T10:00:00.123456',
                                                         '2003-03-03T10:00:00+0100', '2003-03-03T10:00:00 +01:00'])), 0o600])
        steps.append(['f', fp, 'p', 0o644])
    elif kind == 'info_dangling_link':
        # info/x.trashinfo is a symlink whose target is gone (a link to a file on an unplugged drive)
        steps.append(['l', ip, rng.choice(['/no/such/drive/x.trashinfo', 'gone.trashinfo'])])
        steps.append(['f', fp, 'p', 0o644])
    elif kind == 'info_loop_link':
        steps.append(['l', ip, nm + '.trashinfo'])
        steps.append(['f', fp, 'p', 0o644])
    elif kind == 'info_link_to_dir':
        steps.append(['l', ip, '..'])
        steps.append(['f', fp, 'p', 0o644])
    elif kind == 'stray_dangling_link':
        # any other name in info/
        steps.append(['l', tdir + '/info/' + rng.choice(['README-', 'lost+found-', '']) + nm, '/no/where'])
    elif kind == 'pctnonutf8':
        # ASCII file content whose percent-escapes decode to bytes that are not UTF-8 (a Latin-1 name written by another tool);
        # sometimes also truncated (no date)
        steps.append(['f', ip, '[Trash Info]\nPath=/home/u/w/%s\n%s' % (
            rng.choice(['caf%E9.txt', '%FF%FE', 'a%C3%28b', '%80', 'ok%ED%A0%80surrogate']),
            rng.choice(['DeletionDate=2020-01-01T00:00:00\n', 'DeletionDate=2020-01-01T00:00:00\n', ''])), 0o600])
        steps.append(['f', fp, 'p', 0o644])
    elif kind == 'pctcontrol':
        # escapes of control characters: terminal bells, escape sequences, a NUL
        steps.append(['f', ip, '[Trash Info]\nPath=/home/u/w/%s\nDeletionDate=2020-01-01T00:00:00\n' % (
            rng.choice(['bell%07', 'esc%1B%5B2J', 'nul%00byte', 'tab%09', 'del%7F'])), 0o600])
        steps.append(['f', fp, 'p', 0o644])
    elif kind == 'nopayload':
        steps.append(['f', ip, '[Trash Info]\nPath=/home/u/w/%s\nDeletionDate=2020-01-01T00:00:00\n' % nm, 0o600])
    elif kind == 'orphan':
        steps.append(['f', fp, 'orphan', 0o644])
    elif kind == 'orphan_longname':
        # a payload without info whose name is so long that '<name>.trashinfo' exceeds NAME_MAX: looking that info up gives
        # ENAMETOOLONG, not ENOENT
        long_nm = (nm + '-' + rng.choice(['x', 'é', '日']) * 255).encode('utf-8')[:rng.randint(246, 255)].decode('utf-8', 'ignore')
        steps.append(['f', tdir + '/files/' + long_nm, 'orphan with a long name', 0o644])
    elif kind == 'nopayload_longname':
        long_nm = (nm + '-' + 'y' * 255)[:245]
        steps.append(['f', tdir + '/info/' + long_nm + '.trashinfo', '[Trash Info]\nPath=/home/u/w/%s\nDeletionDate=2020-01-01T00:00:00\n' % long_nm, 0o600])
    elif kind == 'info_named_by_dots':
        # a (well-formed) file called '.trashinfo', '..trashinfo' or '...trashinfo': the payload it would stand for is files/ itself,
        # files/. or the trash directory
        steps.append(['f', tdir + '/info/' + rng.choice(['', '.', '..']) + '.trashinfo',
                      '[Trash Info]\nPath=%s\nDeletionDate=2001-01-01T00:00:00\n' % (path_value or '/home/u/w/' + nm), 0o600])
    elif kind == 'equals_lines':
        # lines that are not 'key=value' with one '=': foreign keys whose value holds '=', bare '=', a key without '=' - and no Path
        lines = ['X-Origin=a=b', 'Comment=size=3;mode=0644', '==', '=', 'Path', 'DeletionDate', 'x=y=z=', '=Path=/home/u/w/nothing']
        rng.shuffle(lines)
        steps.append(['f', ip, '[Trash Info]\n%s\n%s' % ('\n'.join(lines[:rng.randint(1, 4)]),
                                                       rng.choice(['', 'DeletionDate=2020-01-01T00:00:00\n'])), 0o600])
        if rng.random() < 0.5:
            steps.append(['f', fp, 'p', 0o644])
    elif kind == 'dir_in_info':
        steps.append(['d', tdir + '/info/' + nm, 0o700])
    elif kind == 'infodir_named_trashinfo':
        steps.append(['d', ip, 0o700])
    elif kind == 'only_header':
        steps.append(['f', ip, '[Trash Info]\n', 0o600])
        steps.append(['f', fp, 'p', 0o644])
    elif kind == 'crlf':
        steps.append(['f', ip, '[Trash Info]\r\nPath=/home/u/w/%s\r\nDeletionDate=2020-01-01T00:00:00\r\n' % nm, 0o600])
        steps.append(['f', fp, 'p', 0o644])
    else:
        raise ValueError(kind)
    return nm
