"""World / layout / name generators.  Everything is a pure function of the
``random.Random`` passed in; the result is JSON-serialisable (names that are
not valid UTF-8 are surrogate-escaped ``str``)."""
from __future__ import annotations

import posixpath

PLAIN = ['a', 'b', 'foo', 'bar', 'file.txt', 'notes', 'x', 'data.bin', 'report.pdf', 'foobar',
         'fo', 'Foo', 'FOO', 'img.png', 'src', 'docs', 'k']
TROUBLE = [
    'with space', ' lead', 'trail ', 'tab\there', 'new\nline', 'cr\rret', 'per%cent', '100%',
    '%41', '%', '%%', 'pl+us', 'a+b+c', 'eq=ual', '[brack]', '[', ']', 'st*ar', 'qu?es', '*', '?',
    '-dash', '--', '-f', '-rf', '..x', '...', '.hidden', 'x.trashinfo', '.trashinfo',
    'a.trashinfo.trashinfo', '#hash', 'semi;colon', "quo'te", 'dq"uote', 'back\\slash', 'a:b',
    '~tilde', '~', '~root', '$var', '`bt`', '!bang', '{br}', '(p)', '&', '|', 'café', '日本語',
    '\U0001f600', 'é', 'Path=x', 'DeletionDate=1', '[Trash Info]', 'foo_1', 'foo_2',
    'a' * 255, 'b' * 200 + '.txt', 'é' * 127, 'x' * 241,
    'bad\udcff', '\udc80\udc81', 'ok\udce9nd',          # invalid UTF-8 (surrogate-escaped)
    '\x01', '\x7f', 'bell\x07',
]


def pick_names(rng, n, trouble=0.35, allow_invalid=True, pool=None):
    out = []
    tries = 0
    while len(out) < n and tries < 1000:
        tries += 1
        if pool is not None and rng.random() < 0.5:
            nm = rng.choice(pool)
        elif rng.random() < trouble:
            nm = rng.choice(TROUBLE)
            if not allow_invalid and any(0xdc80 <= ord(c) <= 0xdcff for c in nm):
                continue
        else:
            nm = rng.choice(PLAIN)
            if rng.random() < 0.2:
                nm += str(rng.randrange(10))
        if nm in out or nm in ('.', '..', '') or '/' in nm or '\0' in nm:
            continue
        if len(nm.encode('utf-8', 'surrogateescape')) > 255:
            continue
        out.append(nm)
    return out


def rand_name_bytes(rng, maxlen=40, allow_invalid=True):
    """a random name over all byte values 1..255 except '/'"""
    n = rng.choice([1, 1, 2, 3, 5, 8, 13, 40, 100, 255]) if maxlen >= 255 else rng.randint(1, maxlen)
    bs = bytearray()
    while len(bs) < n:
        r = rng.random()
        if r < 0.5:
            bs.append(rng.choice(b'abcxyzABC019._-'))
        elif r < 0.8:
            bs.append(rng.choice(b' %+=[]#?\n\r\t&;\'"\\*!~$`{}()|<>:@^,'))
        elif r < 0.9:
            bs.extend(rng.choice(['é', 'ß', '中', '\U0001f4a9', '́']).encode('utf-8'))
        else:
            b = rng.randint(1, 255)
            if b == 0x2f:
                continue
            if not allow_invalid and b >= 0x80:
                continue
            bs.append(b)
    bs = bytes(bs[:255])
    s = bs.decode('utf-8', 'surrogateescape')
    if not allow_invalid:
        s = bs.decode('utf-8', 'ignore')
    # re-check length after decode/encode roundtrip
    while len(s.encode('utf-8', 'surrogateescape')) > 255:
        s = s[:-1]
    if s in ('', '.', '..'):
        s = 'n' + s
    return s


KINDS = ['file', 'empty', 'dir', 'emptydir', 'deepdir', 'link_file', 'link_dir', 'link_dangling',
         'link_link', 'link_abs', 'link_self', 'modefile', 'modedir']


def make_entry(rng, path, kind, steps, aux_dir):
    """append build steps creating an entry of the given kind at ``path``.
    ``aux_dir`` is a directory where link targets are placed."""
    tag = str(len(steps))
    if kind == 'file':
        steps.append(['f', path, 'content-%s\n' % tag * rng.randint(1, 3), rng.choice([0o644, 0o600, 0o755, 0o444]),
                      1_500_000_000 + rng.randrange(10**8)])
    elif kind == 'empty':
        steps.append(['f', path, '', 0o644, 1_500_000_000 + rng.randrange(10**8)])
    elif kind == 'modefile':
        steps.append(['f', path, 'm' + tag, rng.choice([0o000, 0o400, 0o200, 0o4755, 0o666, 0o111]),
                      rng.choice([0, 1, 2**31 - 1, 1_234_567_890])])
    elif kind == 'dir':
        steps.append(['d', path, 0o755])
        steps.append(['f', path + '/inner1', 'i1' + tag, 0o644, 1_400_000_000 + rng.randrange(10**8)])
        steps.append(['f', path + '/inner2', '', 0o600, 1_400_000_000 + rng.randrange(10**8)])
    elif kind == 'emptydir':
        steps.append(['d', path, rng.choice([0o755, 0o700, 0o775])])
    elif kind == 'modedir':
        steps.append(['d', path, rng.choice([0o755, 0o500, 0o711, 0o1777, 0o2755])])
        steps.append(['f', path + '/in', 'x' + tag, 0o644, 1_300_000_000])
    elif kind == 'deepdir':
        steps.append(['d', path, 0o755])
        steps.append(['d', path + '/s1', 0o750])
        steps.append(['d', path + '/s1/s2', 0o755])
        steps.append(['f', path + '/s1/s2/deep', 'deep' + tag, 0o640, 1_450_000_000])
        steps.append(['f', path + '/top', 'top' + tag, 0o644, 1_450_000_001])
        steps.append(['l', path + '/s1/rel_up', '../top'])
        steps.append(['l', path + '/s1/dang', 'nowhere'])
        steps.append(['d', path + '/emptysub', 0o755])
    elif kind == 'link_file':
        t = aux_dir + '/tgt_file_' + tag
        steps.append(['f', t, 'target' + tag, 0o644, 1_350_000_000])
        steps.append(['l', path, rng.choice([t, posixpath.relpath(t, posixpath.dirname(path))])])
    elif kind == 'link_dir':
        t = aux_dir + '/tgt_dir_' + tag
        steps.append(['d', t, 0o755])
        steps.append(['f', t + '/keep', 'keep' + tag, 0o644, 1_350_000_001])
        steps.append(['l', path, rng.choice([t, posixpath.relpath(t, posixpath.dirname(path))])])
    elif kind == 'link_dangling':
        steps.append(['l', path, rng.choice(['nonexistent', '/nowhere/at/all', '../gone', 'a/b/c'])])
    elif kind == 'link_link':
        t = aux_dir + '/tgt_ll_' + tag
        steps.append(['f', t, 'll' + tag, 0o644, 1_350_000_002])
        steps.append(['l', aux_dir + '/mid_' + tag, t])
        steps.append(['l', path, aux_dir + '/mid_' + tag])
    elif kind == 'link_abs':
        t = aux_dir + '/tgt_abs_' + tag
        steps.append(['d', t, 0o755])
        steps.append(['f', t + '/k', 'k', 0o644, 1_350_000_003])
        steps.append(['l', path, t])
    elif kind == 'link_self':
        steps.append(['l', path, posixpath.basename(path)])
    else:
        raise ValueError(kind)


TRASH_STATES = ['absent', 'sticky', 'nonsticky', 'link_sticky', 'link_nonsticky', 'file', 'dangling']
ALT_STATES = ['absent', 'dir', 'file', 'link_other']


ODD_HOMES = ['CORP\\jdoe', 'bob (old', 'staff[1', 'c++dev', 'a|b', 'x{2}', 'q?', '^h$', 'dot.name', 'sp ace', 'per%cent', 'é']


def make_layout(rng, nvol=None, home_mode=None, xdg=None, uid=None, trash_states=None,
                alt_states=None, nested=None, workname=None, homename='u'):
    """the skeleton of a world: home, volumes, .Trash / .Trash-uid states.
    Returns a dict with 'steps', 'mounts', 'env', 'uid', 'home', 'vols',
    'work' (a directory per volume where user files go), 'aux'."""
    L = {}
    steps = []
    mounts = []
    if uid is None:
        uid = rng.choice([1000, 1000, 1000, 0, 501, 65534, 123456])
    if home_mode is None:
        home_mode = rng.choice(['root', 'root', 'homevol', 'uvol'])
    # (the login name is a name like any other: 'DOMAIN\\user' of winbind, blanks, brackets ... whatever is special to regular
    # expressions, globs and format strings; callers that pass homename get such names)
    home = '/home/' + homename
    steps.append(['d', '/home', 0o755])
    steps.append(['d', home, 0o755])
    if home_mode == 'homevol':
        mounts.append('/home')
    elif home_mode == 'uvol':
        mounts.append(home)
    env = {'HOME': home}
    if xdg is None:
        xdg = rng.choice(['unset', 'unset', 'unset', 'set', 'link', 'othervol_none'])
    if xdg == 'set':
        env['XDG_DATA_HOME'] = home + '/.xdg'
    elif xdg == 'link':
        steps.append(['d', home + '/realdata', 0o755])
        steps.append(['l', home + '/.xdglink', 'realdata'])
        env['XDG_DATA_HOME'] = home + '/.xdglink'
    elif xdg == 'empty':
        env['XDG_DATA_HOME'] = ''
    elif xdg == 'relative':
        env['XDG_DATA_HOME'] = 'reldata'
    if nvol is None:
        nvol = rng.choice([0, 1, 1, 2, 3])
    cand = ['/media/v1', '/media/v2', '/mnt/data']
    # mount points are named by users and desktop environments: labels with blanks, brackets, pluses, bars ... (characters that
    # are special to regular expressions, globs and shells) occur in a quarter of the worlds
    odd = ['Backup (2)', 'disk[1]', 'C++', 'a|b', 'x.y', 'sp ace', 'é', 'USB$1', '^caret', 'q?', 'star*', 'back\\slash', '{b}', 'per%cent']
    if rng.random() < 0.25:
        cand = [posixpath.dirname(c) + '/' + rng.choice(odd) if rng.random() < 0.7 else c for c in cand]
        if len(set(cand)) < len(cand):
            cand = ['/media/v1', '/media/v2', '/mnt/data']
    vols = cand[:nvol]
    if nested is None:
        nested = nvol >= 1 and rng.random() < 0.25
    if nested and vols:
        vols.append(vols[0] + '/nested')
    steps.append(['d', '/media', 0o755])
    steps.append(['d', '/tmp', 0o1777])
    for v in vols:
        steps.append(['d', v, 0o755])
        mounts.append(v)
    L['trash'] = {}
    for i, v in enumerate(vols):
        ts = (trash_states[i] if trash_states and i < len(trash_states) else
              rng.choice(TRASH_STATES + ['absent', 'sticky']))
        as_ = (alt_states[i] if alt_states and i < len(alt_states) else
               rng.choice(['absent', 'absent', 'dir', 'dir', 'file', 'link_other']))
        L['trash'][v] = {'top': ts, 'alt': as_}
        t = v + '/.Trash'
        if ts == 'sticky':
            # (a .Trash made inside a setgid top directory inherits the setgid bit: 3777 is as good as 1777)
            steps.append(['d', t, rng.choice([0o1777, 0o1777, 0o1777, 0o3777, 0o5777, 0o1755, 0o1700])])
        elif ts == 'nonsticky':
            steps.append(['d', t, 0o777])
        elif ts == 'nonsticky_sgid':
            steps.append(['d', t, 0o2775])
        elif ts == 'nonsticky_suid':
            steps.append(['d', t, 0o4755])
        elif ts in ('link_sticky', 'link_nonsticky'):
            real = v + '/.realTrash'
            steps.append(['d', real, 0o1777 if ts == 'link_sticky' else 0o777])
            steps.append(['l', t, '.realTrash'])
        elif ts == 'file':
            steps.append(['f', t, 'not a dir', 0o644])
        elif ts == 'dangling':
            steps.append(['l', t, 'nothing-here'])
        a = v + '/.Trash-%d' % uid
        if as_ == 'dir':
            steps.append(['d', a, 0o700])
        elif as_ == 'file':
            steps.append(['f', a, 'x', 0o600])
        elif as_ == 'link_other':
            steps.append(['d', home + '/elsewhere-trash-%d' % i, 0o700])
            steps.append(['l', a, home + '/elsewhere-trash-%d' % i])
    work = {'/': home + '/w'}
    steps.append(['d', home + '/w', 0o755])
    steps.append(['d', home + '/aux', 0o755])
    # the directory user files live in on a volume: its name is the first
    # component of every $topdir-relative Path, so vary it
    wname = rng.choice(['docs', 'docs', 'docs', 'tmp', 'archive', 'Photos', 'home', 'at', 'Path=', '=']) if workname is None else workname
    for v in vols:
        steps.append(['d', v + '/' + wname, 0o755])
        steps.append(['d', v + '/aux', 0o755])
        work[v] = v + '/' + wname
    L.update(steps=steps, mounts=mounts, env=env, uid=uid, home=home, vols=vols, work=work, wname=wname,
             home_mode=home_mode, xdg=xdg)
    return L


def home_trash_of(env):
    """where the spec puts the home trash (None if undeterminable)"""
    x = env.get('XDG_DATA_HOME')
    if x:
        return x + '/Trash'
    if 'HOME' in env:
        return env['HOME'] + '/.local/share/Trash'
    return None


def fmt_info(path_value, date, extra_first=None):
    s = '[Trash Info]\n'
    if extra_first:
        s += extra_first
    s += 'Path=%s\n' % path_value
    if date is not None:
        s += 'DeletionDate=%s\n' % date
    return s


NEIGHBOUR_SHAPES = ['.%s', '%s~', '.%s.tmp', '%s.tmp', '%s.part', '.%s.swp', '#%s#', '%s.new', '%s.bak', '.~%s', '%s.lock', '%s.trashinfo', '.%s.trashinfo',
                    '%s.trashinfo.tmp', '.%s_1', '%s_1~']


def neighbour_names(rng, name, k=3):
    """names an implementation could plausibly use as a temporary / backup / partial name next to ``name``: entries so called
    are trashed beforehand, they must survive whatever a later command does for ``name``"""
    shapes = rng.sample(NEIGHBOUR_SHAPES, min(k, len(NEIGHBOUR_SHAPES)))
    if rng.random() < 0.6 and '.%s' not in shapes:
        shapes[0] = '.%s'
    return [sh % name for sh in shapes]


def add_trashed(steps, tdir, name, path_value, date, kind='file', info_content=None, tag=''):
    """build steps for one well-formed trashed entry (payload + info)"""
    steps.append(['d', tdir, 0o700])
    steps.append(['d', tdir + '/files', 0o700])
    steps.append(['d', tdir + '/info', 0o700])
    p = tdir + '/files/' + name
    if kind == 'file':
        steps.append(['f', p, 'trashed-%s-%s' % (name[:20], tag), 0o644, 1_200_000_000 + len(steps)])
    elif kind == 'dir':
        steps.append(['d', p, 0o755])
        steps.append(['f', p + '/member', 'm-' + tag, 0o644, 1_200_000_000 + len(steps)])
    elif kind == 'link':
        steps.append(['l', p, '/home/u/aux/linktarget-' + tag])
    elif kind == 'link_loop':
        # a trashed symlink that points to itself (every stat() through it gives ELOOP)
        steps.append(['l', p, name])
    elif kind == 'link_absdir':
        # a trashed symlink whose (absolute) target is an existing directory that was never trashed
        steps.append(['d', '/home/u/aux/livedir-' + tag, 0o755])
        steps.append(['f', '/home/u/aux/livedir-' + tag + '/keep', 'still in use', 0o644])
        steps.append(['l', p, '/home/u/aux/livedir-' + tag])
    elif kind == 'link_absfile':
        steps.append(['f', '/home/u/aux/livefile-' + tag, 'still in use', 0o644])
        steps.append(['l', p, '/home/u/aux/livefile-' + tag])
    elif kind == 'none':
        pass
    steps.append(['f', tdir + '/info/' + name + '.trashinfo',
                  info_content if info_content is not None else fmt_info(path_value, date),
                  0o600, 1_250_000_000 + len(steps)])
