"""Seeded generators of worlds, trash contents, commands (swarm style)."""
