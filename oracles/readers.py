"""Oracles for the reading commands, built on the bag model."""
from __future__ import annotations

import collections
import datetime as _dt
import re

from model import bag as MB
from model import glob as MG
from model import layout as ML
from model import reply as MR
from sim import world as Wd


def reader(sim):
    root = sim.root

    def read(vp):
        return Wd.read_bytes(root, vp)
    return read


def scan(sim, snapshot, env, uid, mounts):
    return MB.scan(snapshot, reader(sim), env, uid, mounts)


def mounts_of(case):
    w = case['world']
    order = w.get('mount_order')
    ms = ['/'] + [m for m in w.get('mounts', []) if m != '/']
    ms = sorted(set(ms))
    if order:
        seen = set()
        ms = [m for m in order if m in ms and not (m in seen or seen.add(m))] + [m for m in ms if m not in order]
    return ms


def phys_lines(text):
    ls = text.split('\n')
    if ls and ls[-1] == '':
        ls.pop()
    return ls


def expected_list_text(entries):
    return ''.join(MB.list_line(e) + '\n' for e in entries if e.location is not None)


def compare_list(stdout_text, entries):
    """multiset comparison of trash-list's stdout with the model bag.
    Returns None if equal, else a description."""
    exp = collections.Counter(phys_lines(expected_list_text(entries)))
    got = collections.Counter(phys_lines(stdout_text))
    if exp == got:
        return None
    missing = list((exp - got).elements())[:4]
    extra = list((got - exp).elements())[:4]
    return 'missing lines %r; unexpected lines %r' % (missing, extra)


def run_list(sim, env, uid, cwd='/'):
    return sim.run({'argv': ['trash-list'], 'env': env, 'cwd': cwd, 'uid': uid})


LISTING = re.compile(r'^ {0,3}(\d+) (\d{4}-\d\d-\d\d \d\d:\d\d:\d\d|None) (.*)$')


def parse_restore_listing(stdout_text):
    """[(index, date_text, path)] from trash-restore's listing, or None if it
    cannot be parsed unambiguously"""
    out = []
    for ln in phys_lines(stdout_text):
        if ln.startswith('What file to restore') or ln.startswith('No files trashed') or \
                ln.startswith('No files were restored'):
            continue
        m = LISTING.match(ln)
        if not m:
            return None
        out.append((int(m.group(1)), m.group(2), m.group(3)))
    if [i for i, _d, _p in out] != list(range(len(out))):
        return None
    return out


def older_than(date, now, days):
    return date < now - _dt.timedelta(days=days)


def bag_keys(entries):
    return set(e.key() for e in entries)


def by_key(entries):
    return dict((e.key(), e) for e in entries)


def removed_added(before_entries, after_entries):
    b, a = by_key(before_entries), by_key(after_entries)
    return [b[k] for k in b if k not in a], [a[k] for k in a if k not in b]


def payload_tree(snapshot, e):
    real = ML.resolve(snapshot, e.tdir)
    return Wd.subtree(snapshot, real + '/files/' + e.name) if real else {}


def pair_intact(before, after, e):
    """payload and info of entry e byte-identical in both snapshots"""
    rb, ra = ML.resolve(before, e.tdir), ML.resolve(after, e.tdir)
    if rb is None or ra is None:
        return False
    pb = Wd.subtree(before, rb + '/files/' + e.name)
    pa = Wd.subtree(after, ra + '/files/' + e.name)
    ib = before.get(rb + '/info/' + e.name + '.trashinfo')
    ia = after.get(ra + '/info/' + e.name + '.trashinfo')
    return Wd.same_tree(pb, pa) and ib is not None and ia is not None and ib[:4] == ia[:4]


def pair_gone(after, e):
    ra = ML.resolve(after, e.tdir)
    if ra is None:
        return True
    return (ra + '/files/' + e.name) not in after and (ra + '/info/' + e.name + '.trashinfo') not in after


def parse_restore_items(stdout_text):
    """like parse_restore_listing, but tolerant of newlines inside paths: a
    line that does not look like a listing line continues the previous path"""
    items = []
    for ln in phys_lines(stdout_text):
        if ln.startswith('What file to restore') or ln.startswith('No files trashed') or \
                ln.startswith('No files were restored'):
            continue
        m = LISTING.match(ln)
        if m and int(m.group(1)) == len(items):
            items.append([int(m.group(1)), m.group(2), m.group(3)])
        elif items:
            items[-1][2] += '\n' + ln
        else:
            return None
    return [tuple(x) for x in items]
