"""Frame oracle for trash-put (DESIGN section 3 and C01): classify, from the
snapshots before and after a run, what happened to every argument, and flag
every difference that is not explained by a complete 'trashed' outcome."""
from __future__ import annotations

import posixpath

from model import layout as ML
from model import trashinfo as TI
from sim import world as Wd
from sim.vkernel import O, K


class Named(object):
    """the entry an argument names, decided by the kernel before the run"""
    __slots__ = ('arg', 'kind', 'loc', 'cls', 'ekind')

    def __repr__(self):
        return 'Named(%r,%s,%r,%s,%s)' % (self.arg, self.kind, self.loc, self.cls, self.ekind)


def _real_dir(root, vdir):
    """realpath of a virtual directory using the real kernel, or None"""
    rp = root + vdir if vdir != '/' else root
    try:
        real = posix_realpath_strict(rp)
    except OSError:
        return None
    if real == root:
        return '/'
    if real.startswith(root + '/'):
        return real[len(root):]
    return None


def posix_realpath_strict(p):
    import os
    was = K.active
    K.active = False
    try:
        return os.path.realpath(p, strict=True)
    finally:
        K.active = was


def name_entry(root, cwd, arg, before, mounts):
    n = Named()
    n.arg = arg
    n.loc = None
    n.ekind = None
    t = arg.rstrip('/')
    if arg == '':
        n.kind, n.cls = 'missing', 'empty-string'
        return n
    if t == '':
        n.kind, n.cls, n.loc, n.ekind = 'dot', 'root', '/', 'dir'
        return n
    d, b = posixpath.split(t)
    comps = [c for c in t.split('/') if c]
    if b in ('.', '..'):
        n.kind = 'dot'
        n.cls = 'dot-trailing-slash' if arg.endswith('/') else 'dot'
        full = t if t.startswith('/') else posixpath.join(cwd, t)
        n.loc = _real_dir(root, full)      # the directory the dot entry denotes
        n.ekind = 'dir'
        return n
    absd = d if d.startswith('/') else posixpath.join(cwd, d)
    rd = _real_dir(root, absd or '/')
    if rd is None:
        n.kind, n.cls = 'missing', 'no-parent'
        return n
    loc = (rd if rd != '/' else '') + '/' + b
    n.loc = loc
    # spelling class
    cls = []
    if '..' in comps:
        # is there a symlink component before a '..'?
        through = False
        cur = '' if (t.startswith('/') or cwd == '/') else cwd
        for c in comps:
            if c == '..':
                e = before.get(cur)
                if e is not None and e[0] == 'l':
                    through = True
                cur = posixpath.dirname(cur)
                if cur == '/':
                    cur = ''
            elif c != '.':
                cur = cur + '/' + c
        cls.append('dotdot-after-symlink' if through else 'dotdot')
    if loc in mounts:
        cls.append('mountroot')
    if arg.endswith('/'):
        cls.append('trailing-slash')
    if arg.startswith('//'):
        cls.append('double-slash')
    n.cls = '+'.join(cls) if cls else 'plain'
    e = before.get(loc)
    if e is None:
        n.kind = 'missing'
    else:
        n.kind = 'entry'
        n.ekind = {'f': 'file', 'd': 'dir', 'l': 'symlink', 'o': 'other'}[e[0]]
        if e[0] == 'l':
            tgt = ML.resolve(before, loc)
            te = before.get(tgt) if tgt else None
            n.ekind += '->' + ('nothing' if te is None else {'f': 'file', 'd': 'dir'}.get(te[0], 'x'))
    return n


def affinity(N, b):
    """could trash-put have derived the trash name N from the base name b?
    N is b, or b plus a '_<n>' suffix, or - after ENAMETOOLONG - a prefix of b
    (possibly empty) plus such a suffix"""
    import re
    if N == b or N.startswith(b + '_'):
        return True
    stem = re.sub(r'_[0-9]+$', '', N)
    return b.startswith(stem) and (len(stem) < len(b))


def related(named):
    """True when two arguments name the same entry or one lies inside the
    other (outside the scope of the per-argument properties)"""
    locs = [n.loc for n in named if n.loc and n.kind != 'missing']
    for i, a in enumerate(locs):
        for j, b in enumerate(locs):
            if i != j and (a == b or b.startswith(a.rstrip('/') + '/')):
                return True
    return False


class Outcome(object):
    __slots__ = ('named', 'state', 'tdir', 'name', 'why')


def _info_names_loc(root, after, T, N, loc, mounts):
    """does T/info/N.trashinfo exist, parse, and name ``loc``?  Returns
    (ok, reason)"""
    ip = T + '/info/' + N + '.trashinfo'
    e = after.get(ip)
    if e is None:
        return False, 'no-info'
    if e[0] != 'f':
        return False, 'info-not-a-file'
    content = Wd.read_bytes(root, ip)
    inf = TI.Info(content)
    if inf.path is None:
        return False, 'info-without-path'
    if inf.date is None:
        return False, 'info-without-date'
    p = ML.fss(inf.path)
    if p.startswith('/'):
        return (p == loc), 'info-names-other-path'
    # relative: resolved against the volume the trash directory lives on
    # (strict base checking per trash-dir kind is C03/C07's business)
    m = ML.volume_of(mounts, T)
    if ((m if m != '/' else '') + '/' + p) == loc:
        return True, ''
    return False, 'info-names-other-path'


def judge(root, before, after, named, mounts, extra_allowed_dirs=()):
    """returns (outcomes, problems) - problems is a list of (clause, detail,
    named-or-None)"""
    removed, added, changed = Wd.diff(before, after)
    removed_s, added_s = set(removed), set(added)
    tdirs = ML.trash_dirs_in(after) | ML.trash_dirs_in(before)
    new_payloads = []   # (T, N)
    new_infos = []
    for T in tdirs:
        pb = ML.payloads(before, T)
        for N in ML.payloads(after, T) - pb:
            new_payloads.append((T, N))
        ib = ML.infos(before, T)
        for N in ML.infos(after, T) - ib:
            new_infos.append((T, N))
    used_payloads = set()
    used_infos = set()
    # a new pair whose .trashinfo names the location of one argument belongs to
    # that argument; it is never offered to another one as a content match
    owner = {}
    for (T, N) in set(new_payloads) | set(new_infos):
        for idx, nm in enumerate(named):
            if nm.loc and nm.kind != 'missing':
                ok, _why = _info_names_loc(root, after, T, N, nm.loc, mounts)
                if ok:
                    owner[(T, N)] = idx
                    break
    outcomes = []
    problems = []
    explained_removed = set()
    explained_added = set()
    for nm in named:
        oc = Outcome()
        oc.named = nm
        oc.tdir = oc.name = None
        oc.why = ''
        outcomes.append(oc)
        if nm.kind == 'missing' or nm.loc is None or nm.loc == '/':
            oc.state = 'n/a'
            continue
        loc = nm.loc
        bt = Wd.subtree(before, loc)
        at = Wd.subtree(after, loc)
        # trash directories that live inside the argument itself (a dot entry
        # or mount root above its own .Trash-uid): their skeleton and content
        # are not part of 'the entry'
        inner = [T for T in tdirs if T.startswith(loc.rstrip('/') + '/')]
        if inner:
            def _strip(t, snapshot_is_after):
                out = {}
                for k, v in t.items():
                    full = loc + k
                    skip = False
                    for T in inner:
                        if full == T or full.startswith(T + '/'):
                            skip = True
                        elif v[0] == 'd' and T.startswith(full + '/') and full not in before:
                            skip = True      # ancestor of the trash dir created on demand
                    if not skip:
                        out[k] = v
                return out
            bt = _strip(bt, False)
            at = _strip(at, True)
        intact = Wd.same_tree(bt, at)
        gone = loc not in after
        # candidate pairs for this argument
        cands = []
        me = named.index(nm)
        for (T, N) in new_payloads:
            if (T, N) in used_payloads:
                continue
            if owner.get((T, N), me) != me:
                continue
            if Wd.same_tree(bt, Wd.subtree(after, T + '/files/' + N)):
                ok, why = _info_names_loc(root, after, T, N, loc, mounts)
                if ok or affinity(N, posixpath.basename(loc) if nm.kind == 'entry' else posixpath.basename(nm.arg.rstrip('/'))):
                    cands.append((ok, T, N, why))
        good = [c for c in cands if c[0]]
        # infos that name this location although no payload matches
        info_for_loc = []
        for (T, N) in new_infos:
            if (T, N) in used_infos:
                continue
            if owner.get((T, N), me) != me:
                continue
            ok, why = _info_names_loc(root, after, T, N, loc, mounts)
            if ok:
                info_for_loc.append((T, N))
        if gone and len(good) >= 1:
            _ok, T, N, _w = good[0]
            oc.state, oc.tdir, oc.name = 'trashed', T, N
            used_payloads.add((T, N))
            used_infos.add((T, N))
            for k in bt:
                explained_removed.add(loc + k)
            for k in Wd.subtree(after, T + '/files/' + N):
                explained_added.add(T + '/files/' + N + k)
            explained_added.add(T + '/info/' + N + '.trashinfo')
            if len(good) > 1:
                problems.append(('duplicated-in-trash', 'argument has %d complete copies in the trash' % len(good), nm))
        elif intact and not cands and not info_for_loc:
            oc.state = 'untouched'
        else:
            oc.state = 'half'
            if gone and not cands:
                oc.why = 'lost'            # gone from origin, nowhere in trash
            elif gone and cands:
                oc.why = 'payload-' + cands[0][3]   # in trash but info missing/wrong
                oc.tdir, oc.name = cands[0][1], cands[0][2]
                used_payloads.add((cands[0][1], cands[0][2]))
                for k in Wd.subtree(after, cands[0][1] + '/files/' + cands[0][2]):
                    explained_added.add(cands[0][1] + '/files/' + cands[0][2] + k)
                for k in bt:
                    explained_removed.add(loc + k)
            elif intact and cands:
                oc.why = 'copied-not-removed'
                used_payloads.add((cands[0][1], cands[0][2]))
                for k in Wd.subtree(after, cands[0][1] + '/files/' + cands[0][2]):
                    explained_added.add(cands[0][1] + '/files/' + cands[0][2] + k)
                if cands[0][0]:
                    used_infos.add((cands[0][1], cands[0][2]))
                    explained_added.add(cands[0][1] + '/info/' + cands[0][2] + '.trashinfo')
            elif intact and info_for_loc:
                oc.why = 'stray-info'
                used_infos.add(info_for_loc[0])
                explained_added.add(info_for_loc[0][0] + '/info/' + info_for_loc[0][1] + '.trashinfo')
            else:
                # still there but not identical (emptied / partly moved / partly deleted).
                # Is everything that is missing from the origin still available in a
                # complete copy under files/ ?
                if cands:
                    oc.why = 'origin-partly-deleted-but-complete-copy-in-trash'
                    used_payloads.add((cands[0][1], cands[0][2]))
                    for k in Wd.subtree(after, cands[0][1] + '/files/' + cands[0][2]):
                        explained_added.add(cands[0][1] + '/files/' + cands[0][2] + k)
                    if cands[0][0]:
                        used_infos.add((cands[0][1], cands[0][2]))
                        explained_added.add(cands[0][1] + '/info/' + cands[0][2] + '.trashinfo')
                else:
                    missing = [k for k in bt if (loc + k) not in after or not Wd.same_entry(bt[k], after.get(loc + k))]
                    oc.why = 'data-lost' if any(bt[k][0] != 'd' for k in missing) else 'origin-modified'
                for k in bt:
                    if loc + k not in after:
                        explained_removed.add(loc + k)
            problems.append(('half-trashed:' + oc.why, 'argument %r: %s' % (nm.arg, oc.why), nm))
    # skeleton directories that may appear
    allowed_dirs = set(extra_allowed_dirs)
    for T in tdirs:
        allowed_dirs.add(T)
        allowed_dirs.add(T + '/files')
        allowed_dirs.add(T + '/info')
        p = T
        while p and p.strip('/') and posixpath.dirname(p) != p:
            allowed_dirs.add(p)
            p = posixpath.dirname(p)
    for k in added:
        if k in explained_added:
            continue
        e = after[k]
        if e[0] == 'd' and k in allowed_dirs:
            continue
        # classify the leftover
        clause = 'unexplained-addition'
        for T in tdirs:
            if k.startswith(T + '/files/'):
                top = k[len(T) + 7:].split('/')[0]
                clause = 'orphan-payload' if (T + '/info/' + top + '.trashinfo') not in after else 'unassigned-payload'
                break
            if k.startswith(T + '/info/'):
                N = k[len(T) + 6:]
                if N.endswith('.trashinfo') and (T + '/files/' + N[:-10]) not in after:
                    clause = 'stray-info'
                else:
                    clause = 'unassigned-info'
                break
        problems.append((clause, k, None))
    for k in removed:
        if k in explained_removed:
            continue
        problems.append(('unexplained-removal', k, None))
    for k in changed:
        if any(k == oc.named.loc or k.startswith((oc.named.loc or '\0') + '/')
               for oc in outcomes if oc.state == 'half'):
            continue
        problems.append(('unexplained-change', '%s: %r -> %r' % (k, before[k], after[k]), None))
    # collapse multiple leftovers of the same clause under the same top dir
    seen = set()
    out = []
    for c, d, nm in problems:
        key = (c, nm.arg if nm else d.split('/files/')[0] if '/files/' in d else d)
        if c in ('orphan-payload', 'unexplained-removal', 'unexplained-addition') and nm is None:
            key = (c,)
        if key in seen:
            continue
        seen.add(key)
        out.append((c, d, nm))
    return outcomes, out


def reported_failed(stderr_text, arg):
    """does stderr contain a "cannot trash <description> '<arg>'" diagnostic?
    stderr uses the backslashreplace error handler: a name that is not valid
    UTF-8 is shown with \\udcXX escapes"""
    import re
    forms = set([arg, arg.encode('utf-8', 'backslashreplace').decode('utf-8')])
    for a in forms:
        pat = r"cannot trash (?:'\.\.?' )?(?:[a-z]+ ){1,3}'" + re.escape(a) + r"'"
        if re.search(pat, stderr_text) is not None:
            return True
    return False


def candidate_skeleton(env, uid, mounts):
    """directories trash-put may create on the way to any candidate trash
    directory (the candidates, their files/ and info/, and all ancestors)"""
    from model import bag as MB
    cands = []
    h = MB.home_trash(env)
    if h and h.startswith('/'):
        cands.append(h)
    for m in mounts:
        pre = m if m != '/' else ''
        cands.append(pre + '/.Trash/%d' % uid)
        cands.append(pre + '/.Trash-%d' % uid)
    out = set()
    for c in cands:
        out.add(c + '/files')
        out.add(c + '/info')
        p = c
        while p and p.strip('/') and posixpath.dirname(p) != p:
            out.add(p)
            p = posixpath.dirname(p)
    return out
