#!/venv/bin/python
"""regenerate the seeded-change table of DESIGN.md from /verif/seeded/*/meta.json"""
import glob, json, os, re
rows = ['| seeded change | breaks | needs to manifest | detected by | not detected by (of those run) |', '|---|---|---|---|---|']
for f in sorted(glob.glob('/verif/seeded/*/meta.json')):
    m = json.load(open(f))
    name = os.path.basename(os.path.dirname(f))
    need = m.get('summary') or ' '.join(m.get('needs_to_manifest', '').split())[:160]
    rows.append('| %s | %s | %s | %s | %s |' % (name, m['breaks_property'], need.replace('|', '/'), ', '.join(m['detected_by']) or '**none**',
                                             ', '.join(m['not_detected_by']) or '-'))
s = open('/verif/DESIGN.md').read()
s = re.sub(r'<!-- SEEDED-TABLE-BEGIN -->.*<!-- SEEDED-TABLE-END -->', '<!-- SEEDED-TABLE-BEGIN -->\n' + '\n'.join(rows) + '\n<!-- SEEDED-TABLE-END -->', s, flags=re.S)
open('/verif/DESIGN.md', 'w').write(s)
print('\n'.join(rows))
