#!/venv/bin/python
"""(re)generate MANIFEST.json from the property modules present in props/"""
import importlib, json, os, sys
HERE = os.path.dirname(os.path.dirname(os.path.abspath(__file__)))
sys.path.insert(0, HERE)
props = [json.loads(l) for l in open(os.path.join(HERE, 'properties.jsonl'))]
checks, na = [], []
NA_REASONS = json.load(open(os.path.join(HERE, 'tools', 'not_applicable.json'))) if os.path.exists(os.path.join(HERE, 'tools', 'not_applicable.json')) else {}
for p in props:
    pid = p['id']
    path = os.path.join(HERE, 'props', pid.lower() + '.py')
    if not os.path.exists(path) or pid in NA_REASONS:
        na.append({'property_id': pid, 'reason': NA_REASONS.get(pid, 'check not built yet in this session (planned in DESIGN.md section 6); not claimed')})
        continue
    mod = importlib.import_module('props.' + pid.lower())
    checks.append({
        'property_id': pid,
        'quick_cmd': './check %s --tier quick' % pid,
        'thorough_cmd': './check %s --tier thorough' % pid,
        'evidence_file': '/verif/evidence/%s.json' % pid,
        'replay_cmd_template': './check %s --replay {path}' % pid,
        'engine': getattr(mod, 'ENGINE', 'history'),
        'level_claimed': {'category': mod.LEVEL, 'text': mod.LEVEL_TEXT, 'design_ref': 'DESIGN.md section 6 ' + pid},
        'level_note': mod.LEVEL_NOTE,
        'technique': mod.TECHNIQUE,
    })
m = {
    'version': 1,
    'setup_cmd': './check selftest --tier quick',
    'hooks': {'guard': 'TRASHCLI_VERIF', 'enable': 'no hook in /repo is needed: every seam is reached from outside (module attributes of os/builtins/posixpath/psutil and of two trashcli modules, existing environment variables)',
              'baseline_off_cmd': 'cd /repo && /venv/bin/python -m pytest -ra -q -p no:cacheprovider --timeout=900 --continue-on-collection-errors',
              'source_commits': [], 'add_only': True},
    'engines': [
        {'name': 'history', 'path': 'sim/ + props/', 'serves_properties': [c['property_id'] for c in checks if c['engine'] == 'history'],
         'kind_free_text': 'sequential simulated processes (real main()s) on the virtual kernel, frame-diff and bag-model oracles'},
        {'name': 'crash', 'path': 'sim/ + engines/crash.py', 'serves_properties': [c['property_id'] for c in checks if c['engine'] == 'crash'],
         'kind_free_text': 'sticky kill before every mutating op of every sampled scenario, crash-state invariant + recovery'},
        {'name': 'fault', 'path': 'sim/ + engines/fault.py', 'serves_properties': [c['property_id'] for c in checks if c['engine'] == 'fault'],
         'kind_free_text': 'errno injection at every op of every sampled scenario (single shots, persistent conditions, pairs)'},
        {'name': 'schedule', 'path': 'sim/sched.py', 'serves_properties': [c['property_id'] for c in checks if c['engine'] == 'schedule'],
         'kind_free_text': 'baton-passing threads, seeded scheduler decides every interleaving of the processes\' ops'},
        {'name': 'differential', 'path': 'props/', 'serves_properties': [c['property_id'] for c in checks if c['engine'] == 'differential'],
         'kind_free_text': 'same world, variants of the command / of the trash content, outcomes compared'},
    ],
    'checks': checks,
    'not_applicable': na,
    'notes': 'Deterministic simulation with fault injection; see DESIGN.md. Exit 2 + HARNESS-ERROR = the simulator failed, never a verdict.',
}
json.dump(m, open(os.path.join(HERE, 'MANIFEST.json'), 'w'), indent=1)
print('checks:', [c['property_id'] for c in checks], 'not claimed:', len(na))
