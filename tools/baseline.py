#!/venv/bin/python
"""Run the repository's pinned test suite (command from /root/.vp/BASELINE.json)
and compare the set of passing tests with the baseline's stable_pass list.
exit 0 iff every stable_pass test still passes."""
import json, os, subprocess, sys, tempfile
import xml.etree.ElementTree as ET

b = json.load(open('/root/.vp/BASELINE.json'))
out = os.path.join(tempfile.mkdtemp(dir='/dev/shm'), 'junit.xml')
repo = sys.argv[1] if len(sys.argv) > 1 else '/repo'
cmd = b['cmd'].replace('<file>', out).replace('cd /repo', 'cd ' + repo)
env = dict(os.environ)
env['PYTHONPATH'] = (sys.argv[1] if len(sys.argv) > 1 else '/repo')
for k in list(env):
    if k.startswith('TRASHCLI_VERIF'):
        del env[k]
p = subprocess.run(cmd, shell=True, env=env, stdout=subprocess.PIPE, stderr=subprocess.STDOUT, text=True)
passed = set()
for tc in ET.parse(out).getroot().iter('testcase'):
    if not any(ch.tag in ('failure', 'error', 'skipped') for ch in tc):
        passed.add('%s::%s' % (tc.get('classname'), tc.get('name')))
missing = [t for t in b['stable_pass'] if t not in passed]
print(p.stdout.strip().splitlines()[-1])
print('stable_pass=%d passing_now=%d missing=%d' % (len(b['stable_pass']), len(passed), len(missing)))
for t in missing[:20]:
    print('  MISSING', t)
import shutil; shutil.rmtree(os.path.dirname(out))
sys.exit(1 if missing else 0)
