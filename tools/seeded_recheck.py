#!/venv/bin/python
"""Re-run the target check of every adopted seeded change against /repo's
current HEAD + that change, for several master seeds.

  tools/seeded_recheck.py [--seeds "1 2"] [--only C04-...] [--all-checks]

One scratch worktree (/tmp/seedm/wt, removed at the end) is reset to HEAD (or to
the commit recorded as evaluated_at_repo_commit when the patch does not apply
on HEAD or the entry says so), the patch is applied, the check is run with
VERIF_REPO pointing at it.  Results go to meta.json ('recheck') and a summary
is printed.  Nothing is ever applied to /repo."""
import glob
import json
import os
import subprocess
import sys

VERIF = '/verif'
WT = '/tmp/seedm/wt'


def sh(cmd, **kw):
    return subprocess.run(cmd, shell=True, stdout=subprocess.PIPE, stderr=subprocess.STDOUT, text=True, **kw)


def main():
    seeds = (sys.argv[sys.argv.index('--seeds') + 1] if '--seeds' in sys.argv else '1 2').split()
    only = sys.argv[sys.argv.index('--only') + 1] if '--only' in sys.argv else None
    head = sh('git -C /repo rev-parse HEAD').stdout.strip()
    os.makedirs(os.path.dirname(WT), exist_ok=True)
    if not os.path.isdir(WT):
        r = sh('git -C /repo worktree add --detach %s %s' % (WT, head))
        assert r.returncode == 0, r.stdout
    rows = []
    try:
        for d in sorted(glob.glob(os.path.join(VERIF, 'seeded', '*'))):
            name = os.path.basename(d)
            if only and only not in name:
                continue
            mp = os.path.join(d, 'meta.json')
            meta = json.load(open(mp))
            prop = meta['breaks_property']
            targets = meta.get('detected_by') or [prop]
            if prop in targets:
                targets = [prop]
            else:
                targets = targets[:1]
            base = head
            sh('git -C %s checkout -q -f --detach %s' % (WT, base))
            sh('git -C %s clean -qfd trashcli' % WT)
            r = sh('git -C %s apply %s' % (WT, os.path.join(d, 'patch.diff')))
            pinned = meta.get('pinned_to_commit')
            if r.returncode != 0 or pinned:
                base = pinned or meta.get('evaluated_at_repo_commit') or head
                sh('git -C %s checkout -q -f --detach %s' % (WT, base))
                r = sh('git -C %s apply %s' % (WT, os.path.join(d, 'patch.diff')))
            if r.returncode != 0:
                rows.append((name, 'PATCH DOES NOT APPLY', {}))
                continue
            res = {}
            for c in targets:
                for s in seeds:
                    rr = sh('./check %s' % c, cwd=VERIF, env=dict(os.environ, VERIF_REPO=WT, VERIF_SEED=s), timeout=3600)
                    res['%s@%s' % (c, s)] = rr.returncode
            meta['recheck'] = {'repo_commit': base, 'results': res}
            json.dump(meta, open(mp, 'w'), indent=1)
            rows.append((name, base[:7], res))
            print(name, base[:7], res, flush=True)
    finally:
        sh('git -C /repo worktree remove --force %s' % WT)
    bad = [r for r in rows if not r[2] or any(v != 1 for v in r[2].values())]
    print('%d seeded changes, %d not detected by their target check under every seed' % (len(rows), len(bad)))
    for r in bad:
        print('  MISSED', r)
    return 0


if __name__ == '__main__':
    sys.exit(main())
