#!/venv/bin/python
"""Adopt a seeded breaking change produced by a sub-agent.

  tools/seeded.py adopt <PROP> <slug> [--all]   from /tmp/seed/wt_<PROP>/seeded_out/{patch.diff,demo.py,notes.md}

Re-verifies it (suite still passes with the patch; demo fails with it and
passes without), copies it to /verif/seeded/<PROP>-<slug>/, runs the checks
against the patched worktree (VERIF_REPO) and records which ones report a
VIOLATION in meta.json.  --all runs every check, default only <PROP>."""
import json
import os
import shutil
import subprocess
import sys

VERIF = '/verif'


def sh(cmd, **kw):
    return subprocess.run(cmd, shell=True, stdout=subprocess.PIPE, stderr=subprocess.STDOUT, text=True, **kw)


def main():
    _, cmd, prop, slug = sys.argv[:4]
    allchecks = '--all' in sys.argv
    summary = sys.argv[sys.argv.index('--summary') + 1] if '--summary' in sys.argv else ''
    base = sys.argv[sys.argv.index('--base') + 1] if '--base' in sys.argv else '/tmp/seed'
    wt = '%s/wt_%s' % (base, prop)
    out = os.path.join(wt, 'seeded_out')
    patch = os.path.join(out, 'patch.diff')
    assert os.path.exists(patch), patch
    env = dict(os.environ, PYTHONPATH=wt)
    # make sure the worktree holds exactly the patch, on top of /repo's current HEAD
    sh('git -C %s checkout -- trashcli' % wt)
    head = sh('git -C /repo rev-parse HEAD').stdout.strip()
    if '--at' in sys.argv:
        # a change whose demo (or whose hook) depends on behaviour that a later fix: commit altered is evaluated on the commit it was written for
        head = sh('git -C /repo rev-parse %s' % sys.argv[sys.argv.index('--at') + 1]).stdout.strip()
    sh('git -C %s checkout -q --detach %s' % (wt, head))
    r = sh('git -C %s apply %s' % (wt, patch))
    assert r.returncode == 0, r.stdout
    suite = sh('%s/tools/baseline.py %s' % (VERIF, wt))
    suite_ok = suite.returncode == 0
    d1 = sh('/venv/bin/python %s/demo.py' % out, env=env, cwd=wt, timeout=900)
    sh('git -C %s checkout -- trashcli' % wt)
    d0 = sh('/venv/bin/python %s/demo.py' % out, env=env, cwd=wt, timeout=900)
    sh('git -C %s apply %s' % (wt, patch))
    print('suite with patch: %s | demo with patch: exit %d | demo without: exit %d' % (
        suite.stdout.strip().splitlines()[-1], d1.returncode, d0.returncode))
    ok = suite_ok and d1.returncode == 1 and d0.returncode == 0
    if not ok:
        print('NOT CONFIRMED')
        print(suite.stdout[-500:])
        print(d1.stdout[-800:])
        print(d0.stdout[-800:])
        return 1
    dest = os.path.join(VERIF, 'seeded', '%s-%s' % (prop, slug))
    os.makedirs(dest, exist_ok=True)
    for f in ('patch.diff', 'demo.py', 'notes.md'):
        if os.path.exists(os.path.join(out, f)):
            shutil.copy(os.path.join(out, f), os.path.join(dest, f))
    checks = [c['property_id'] for c in json.load(open(os.path.join(VERIF, 'MANIFEST.json')))['checks']]
    todo = checks if allchecks else [prop]
    detected = {}
    for c in todo:
        rr = sh('./check %s' % c, cwd=VERIF, env=dict(os.environ, VERIF_REPO=wt), timeout=3600)
        sigs = [ln.strip().split('signature: ')[1] for ln in rr.stdout.splitlines() if 'signature: ' in ln]
        detected[c] = {'exit': rr.returncode, 'signatures': sigs[:6]}
        print('  check %s on the seeded tree: exit %d %s' % (c, rr.returncode, sigs[:3]))
    notes = os.path.join(out, 'notes.md')
    meta = {
        'breaks_property': prop,
        'evaluated_at_repo_commit': head,
        'slug': slug,
        'summary': summary,
        'needs_to_manifest': open(notes).read()[:1500] if os.path.exists(notes) else '',
        'confirmed': {'suite_with_patch': suite.stdout.strip().splitlines()[-2:], 'demo_with_patch_exit': d1.returncode,
                      'demo_without_patch_exit': d0.returncode,
                      'commands': ['tools/baseline.py <worktree>', 'python seeded_out/demo.py (patched / unpatched worktree)',
                                   'VERIF_REPO=<worktree> ./check <ID>']},
        'detected_by': sorted(c for c, v in detected.items() if v['exit'] == 1),
        'not_detected_by': sorted(c for c, v in detected.items() if v['exit'] == 0),
        'check_results': detected,
    }
    json.dump(meta, open(os.path.join(dest, 'meta.json'), 'w'), indent=1)
    print('adopted ->', dest, 'detected by', meta['detected_by'])
    return 0


if __name__ == '__main__':
    sys.exit(main())
