#!/bin/sh
# run every claimed check with several master seeds; print only runs that are not clean
# usage: tools/soak.sh "1 2 3 4" [ids...]
seeds="${1:-1 2 3 4 5}"; shift
ids="$@"
[ -z "$ids" ] && ids=$(python3 -c "import json;print(' '.join(c['property_id'] for c in json.load(open('/verif/MANIFEST.json'))['checks']))")
cd /verif
for id in $ids; do for s in $seeds; do
  out=$(VERIF_SEED=$s ./check $id 2>&1); rc=$?
  if [ $rc -ne 0 ]; then echo "== $id seed=$s rc=$rc"; echo "$out" | grep -v "^stderr\|^trash-put\|^KNOWN" | cut -c1-400 | head -12; fi
done; done
echo soak done
