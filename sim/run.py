"""Run driver: one ``Sim`` per worker; ``setup(case)`` builds a fresh world,
``run(spec)`` executes one simulated process sequentially."""
from __future__ import annotations

import datetime as _dt
import hashlib
import os
import random

from . import proc as P
from . import world as Wd
from .vkernel import K, O, HarnessError


def parse_dt(s):
    return _dt.datetime.strptime(s, '%Y-%m-%dT%H:%M:%S.%f')


def fmt_dt(d):
    return d.strftime('%Y-%m-%dT%H:%M:%S.%f')


class ProcResult(object):
    __slots__ = ('pid', 'argv', 'exit', 'out', 'err', 'exc', 'exc_frame', 'trace', 'nops',
                 'nmut', 'killed', 'clock', 'clock_seq', 'replies', 'prompted', 'stdin_read')

    def as_log(self):
        return [self.pid, self.argv, self.exit, self.out.decode('utf-8', 'backslashreplace'),
                self.err.decode('utf-8', 'backslashreplace'), self.exc, self.exc_frame,
                self.nops, self.nmut]

    @property
    def outs(self):
        return self.out.decode('utf-8', 'surrogateescape')

    @property
    def errs(self):
        return self.err.decode('utf-8', 'surrogateescape')


class Sim(object):
    def __init__(self, tag='w'):
        P.install_seams()
        self.sb = Wd.Sandbox(tag)
        self.root = None
        self.npid = 0
        self.case = None
        self.log = []          # everything that goes into the event-log digest
        self.simtime_total = 0.0   # simulated seconds covered by all cases run on this Sim
        self.ops_total = 0
        self.sims_total = 0
        self._clock_start = None
        self.hung = []         # runs stopped by the step cap (never reset: the framework compares lengths)

    # ---- world -------------------------------------------------------------
    def setup(self, case):
        """fresh root + world + kernel configuration from a case description"""
        self.case = case
        self.root = self.sb.fresh()
        w = case['world']
        Wd.build(self.root, w)
        K.reset(self.root, mounts=w.get('mounts', []), dirsalt=case.get('dirsalt', 0),
                faults=case.get('faults', []), umask=case.get('umask', 0o022), devs=w.get('devs'))
        K.mount_order = w.get('mount_order')
        K.unlisted = w.get('unlisted')
        K.binds = set(w.get('binds') or ())
        K.same_device = set(w.get('same_device') or ())
        K.automount = set(w.get('automount') or ())
        for m in K.mounts:
            if not os.path.isdir(self.root + m) or os.path.islink(self.root + m):
                raise HarnessError('mount point %r is not a directory in the world' % m)
        self.account_time()
        ck = case.get('clock', {})
        P.CLOCK.now = parse_dt(ck.get('start', '2024-01-01T12:00:00.000000'))
        self._clock_start = P.CLOCK.now
        P.CLOCK.tick = _dt.timedelta(microseconds=ck.get('tick_us', 137))
        P.CLOCK.op_tick = _dt.timedelta(microseconds=ck['op_us']) if ck.get('op_us') else None
        P.CLOCK.readings = []
        P.CLOCK.configure(ck.get('utcoffset_s', 0), ck.get('dst'))
        P.CLOCK.nonlocal_reads = 0
        P.apply_zone()
        P.RANDOM.script = []
        P.RANDOM.rng = random.Random(case.get('randseed', 0))
        P.RANDOM.calls = 0
        self.npid = 0
        self.log = []

    def account_time(self):
        if self._clock_start is not None:
            self.simtime_total += abs((P.CLOCK.now - self._clock_start).total_seconds())
            self._clock_start = None

    def set_faults(self, faults):
        K.faults = [dict(f) for f in faults]
        for f in K.faults:
            f['_n'] = 0

    def advance(self, seconds):
        try:
            P.CLOCK.now = P.CLOCK.now + _dt.timedelta(seconds=seconds)
        except OverflowError:
            pass

    # ---- processes ---------------------------------------------------------
    def run(self, spec, stdin_fn=None):
        K._rp_cache.clear()       # the world may have been changed from outside since the last run
        self.npid += 1
        pid = self.npid
        if 'rand' in spec:
            P.RANDOM.script = list(spec['rand'])
        if 'advance' in spec:
            self.advance(spec['advance'])
        t0 = len(K.trace)
        c0 = len(P.CLOCK.readings)
        p = P.make_proc(pid, spec, stdin_fn)
        P.run_sequential(p)
        r = ProcResult()
        r.pid = pid
        r.argv = list(spec['argv'])
        r.exit = p.exit
        r.out = p.stdio.out()
        r.err = p.stdio.err()
        r.exc = (type(p.exc).__name__ + ': ' + str(p.exc)) if p.exc is not None else None
        r.exc_frame = P.exc_frame(p)
        r.trace = K.trace[t0:]
        r.nops = p.nops
        r.nmut = p.nmut
        r.killed = p.killed
        r.clock = [x[1] for x in P.CLOCK.readings[c0:]]
        r.clock_seq = [(x[2], x[1]) for x in P.CLOCK.readings[c0:]]
        r.replies = list(getattr(p.stdio.stdin, 'replies', []))
        r.stdin_read = p.stdio.inb.tell() > 0 or bool(r.replies)
        self.log.append(r.as_log())
        self.ops_total += r.nops
        self.sims_total += 1
        if r.exit == -99:
            self.hung.append((r.argv, r.nops, r.errs[-300:]))
        if K.bypass:
            raise HarnessError('call(s) bypassed the seam: %r' % (K.bypass[:5],))
        return r

    def snap(self):
        return Wd.snap(self.root)

    def digest(self, extra=None):
        """sha256 over the event log of the current case: ops with results,
        outputs, exit codes, final snapshot"""
        m = hashlib.sha256()
        for ev in K.trace:
            m.update(repr(ev).encode('utf-8', 'backslashreplace'))
        m.update(repr(self.log).encode('utf-8', 'backslashreplace'))
        s = self.snap()
        for k in sorted(s):
            v = s[k]
            if v[0] == 'f' and '/info/' in k:
                v = v[:4]       # info files get the wall-clock mtime of the run
            elif v[0] == 'f' and v[4] > (Wd.BASE_MTIME + 10**7) * 10**9:
                v = v[:4]       # files created during the run (copies keep theirs)
            m.update(repr((k, v)).encode('utf-8', 'backslashreplace'))
        if extra is not None:
            m.update(repr(extra).encode('utf-8', 'backslashreplace'))
        return m.hexdigest()

    def close(self):
        P.restore_zone()
        self.sb.close()
