"""Virtual kernel: the seam between trash-cli (and the stdlib helpers it uses)
and the operating system.

Every function through which CPython code reaches the file system is replaced
by a wrapper, as an attribute of ``os`` / ``posixpath`` / ``builtins`` / ``io``.
While no simulated process is running the wrappers are transparent
pass-throughs.  While one is running, each call is an *op*:

  record -> schedule -> crash -> fault -> mount emulation -> translate+execute
  -> translate back + record result

Paths seen by the code under test are virtual (``/home/u/x``); they are mapped
to ``ROOT + path`` on a private tmpfs directory.  The real Linux kernel gives
the file-system semantics; the mount table, directory order, uid, tty-ness,
faults, crashes and scheduling are simulated.
"""
from __future__ import annotations

import builtins
import errno as E
import hashlib
import io
import os
import posixpath
import random
import stat as statmod
import sys
import threading

# --------------------------------------------------------------------------
# originals
# --------------------------------------------------------------------------

_NAMES = [
    'stat', 'lstat', 'fstat', 'access', 'open', 'close', 'read', 'write',
    'sendfile', 'copy_file_range', 'mkdir', 'rmdir', 'unlink', 'remove',
    'rename', 'replace', 'link', 'symlink', 'readlink', 'listdir', 'scandir',
    'chmod', 'lchmod', 'chown', 'lchown', 'utime', 'truncate', 'ftruncate',
    'listxattr', 'getxattr', 'setxattr', 'removexattr', 'getcwd', 'getcwdb',
    'chdir', 'getuid', 'geteuid', 'isatty', 'get_terminal_size', 'statvfs',
    'mkfifo', 'mknod', 'fsync', 'fdatasync', 'lseek', 'dup', 'fchmod',
    'fchown', 'fchdir',
]


class _Orig(object):
    pass


O = _Orig()
for _n in _NAMES:
    if hasattr(os, _n):
        setattr(O, _n, getattr(os, _n))
O.builtin_open = builtins.open
O.ismount = posixpath.ismount
O.realpath = posixpath.realpath  # python level; used only when inactive


class SimKilled(BaseException):
    """The simulated process has been killed (SIGKILL between two system
    calls).  Sticky: every later op of the same process raises it again."""


class HarnessError(Exception):
    """The simulator itself misbehaved (path leak, seam bypass, ...)."""


class StepLimit(BaseException):
    """A simulated process exceeded its op budget (non-termination)."""


MUTATING = frozenset([
    'mkdir', 'rmdir', 'unlink', 'remove', 'rename', 'replace', 'link',
    'symlink', 'chmod', 'lchmod', 'chown', 'lchown', 'utime', 'truncate',
    'ftruncate', 'setxattr', 'removexattr', 'write', 'sendfile',
    'copy_file_range', 'mkfifo', 'mknod', 'fchmod', 'fchown',
    'open_w',  # open() that creates/truncates/may write
    'fwrite',  # flush of a python-level writer (SimWriter) = write(2)
])

# ops that can create a new directory entry (need space / write permission)
CREATING = frozenset(['mkdir', 'symlink', 'link', 'open_w', 'mkfifo', 'mknod'])


def _h(*parts):
    m = hashlib.sha256()
    for p in parts:
        m.update(repr(p).encode('utf-8', 'backslashreplace'))
        m.update(b'\0')
    return int.from_bytes(m.digest()[:8], 'big')


# --------------------------------------------------------------------------
# simulated process control block
# --------------------------------------------------------------------------

class Proc(object):
    def __init__(self, pid, spec):
        self.pid = pid
        self.spec = spec
        self.cwd = spec.get('cwd', '/')
        self.uid = spec.get('uid', 1000)
        self.tty = bool(spec.get('tty', False))
        self.nops = 0            # ops issued by this process
        self.nmut = 0            # mutating ops issued
        self.killed = False
        self.kill_at = None      # kill before op index k (counting all ops)
        self.kill_at_mut = None  # kill before the k-th mutating op
        self.intr_at_mut = None  # SIGINT (KeyboardInterrupt, once) before the k-th mutating op
        self.fds = {}            # fd -> virtual path
        self.writers = []        # live SimWriter objects
        self.readers = []        # live SimReader objects
        self.max_ops = spec.get('max_ops', 20000)
        self.nofile = spec.get('nofile', 1024)      # RLIMIT_NOFILE of the simulated process (0, 1, 2 are taken)
        self.locale_enc = spec.get('locale_encoding')   # encoding of the process's locale for text files opened without one (None: UTF-8)
        self.exit = None
        self.exc = None
        self.exc_tb = None
        self.trace_start = 0


# --------------------------------------------------------------------------
# the kernel
# --------------------------------------------------------------------------

class Kernel(object):
    def __init__(self):
        self.root = None         # real directory acting as virtual '/'
        self.active = False
        self.cur = None          # current Proc
        self.trace = []          # list of op events (lists)
        self.gseq = 0
        self.mounts = ['/']
        self.dirsalt = 0
        self.dircount = {}
        self.faults = []         # list of fault rules (dicts)
        self._rp_cache = {}
        self.fired = []          # (rule index, gseq)
        self.short_next = False
        self.sched = None        # scheduler object or None
        self.monitors = []       # callables(ev, phase)
        self.op_hook = None
        self.owner_thread = None
        self.umask = 0o022
        self.record_reads = True
        self.probe = {}
        self.in_op = False       # between begin() and done()/fail(): the bracketed real call
        self.bypass = []         # audit events seen outside a bracket while a process runs

    # ---- configuration per run -----------------------------------------
    def reset(self, root, mounts=('/',), dirsalt=0, faults=(), umask=0o022, devs=None):
        self.root = root
        # st_dev of the simulated volumes: one device per mount point.  ('shared' - every volume reports the same st_dev
        # while ismount() still recognises the mount points - cannot happen on a real kernel: os.path.ismount() itself
        # compares st_dev.  It is what the simulator did before st_dev was emulated and is kept only as an explicit
        # world option for experiments.)
        self.devmode = devs or 'distinct'
        self.trace = []
        self.gseq = 0
        self.mounts = sorted(set(['/'] + list(mounts)))
        self.dirsalt = dirsalt
        self.dircount = {}
        self.faults = [dict(f) for f in faults]
        for f in self.faults:
            f['_n'] = 0
        self.fired = []
        self.short_next = False
        self.fsize = {}
        self.monitors = []
        self.sched = None
        self.cur = None
        self.active = False
        self.umask = umask
        self.probe = {}
        self.in_op = False
        self.bypass = []
        self._rp_cache = {}

    # ---- path translation ----------------------------------------------
    def r(self, vpath):
        """virtual absolute path -> real path"""
        if not vpath.startswith('/'):
            raise HarnessError('r() needs an absolute path: %r' % (vpath,))
        return self.root + vpath if vpath != '/' else self.root

    def v(self, rpath):
        """real path -> virtual path (identity for relative paths)"""
        if isinstance(rpath, bytes):
            return os.fsencode(self.v(os.fsdecode(rpath)))
        if not isinstance(rpath, str):
            return rpath
        root = self.root
        if rpath == root:
            return '/'
        if rpath.startswith(root + '/'):
            return rpath[len(root):]
        return rpath

    def tin(self, path):
        """translate a path argument of the code under test.  Returns
        (real_arg, virtual_str_for_log)."""
        if isinstance(path, int):
            return path, self.cur.fds.get(path, '<fd %d>' % path)
        p = os.fspath(path)
        isb = isinstance(p, bytes)
        s = os.fsdecode(p) if isb else p
        if s.startswith(self.root + '/') or s == self.root:
            raise HarnessError('real path leaked into the simulation: %r' % s)
        if s.startswith('/'):
            # clamp leading '/..' like a real root directory does
            while s.startswith('/../') or s == '/..':
                s = s[3:] or '/'
            if '/../' in s or s.endswith('/..'):
                self._guard_dotdot(s)
            rp = self.root + s
            vs = s
        else:
            if s == '..' or s.startswith('../') or '/../' in s or s.endswith('/..'):
                self._guard_dotdot(posixpath.join(self.cur.cwd, s))
            rp = s
            vs = s
        return (os.fsencode(rp) if isb else rp), vs

    def _guard_dotdot(self, vabs):
        # resolve the directory part with the real kernel and make sure that
        # it does not escape the sandbox; if it would, that is a generator
        # problem (a real chroot would clamp), never a verdict.
        rp = self.root + vabs
        d = posixpath.dirname(rp.rstrip('/')) or '/'
        real = O.realpath(d) if not self.active else self._orig_realpath(d)
        if not (real == self.root or real.startswith(self.root + '/')):
            raise HarnessError('path escapes the virtual root: %r' % vabs)

    def _orig_realpath(self, p):
        # realpath using original syscalls (posixpath.realpath would call the wrappers).  Memoised, every prefix on the way
        # included (see _rp_invalidate for what a mutating op leaves of the memo): deep trees are otherwise quadratic.
        # realpath(d/b) = realpath(d)/b when b is an ordinary name that is not a symlink; anything else (a link, '.', '..',
        # an empty component) is handed to posixpath.realpath for that prefix.
        c = self._rp_cache
        r = c.get(p)
        if r is not None:
            return r
        if len(c) > 12000:
            c.clear()
        todo = []
        d = p
        rd = None
        while True:
            d2, b = posixpath.split(d)
            if d2 == d:
                break
            todo.append((d, b))
            d = d2
            rd = c.get(d)
            if rd is not None:
                break
        if rd is None:
            rd = self._rp_full(d)
            c[d] = rd
        for full, b in reversed(todo):
            if b in ('', '.', '..'):
                rd = self._rp_full(full)
            else:
                cand = rd + '/' + b if rd != '/' else '/' + b
                try:
                    is_link = statmod.S_ISLNK(O.lstat(cand).st_mode)
                except OSError:
                    is_link = False
                rd = self._rp_full(cand) if is_link else cand
            c[full] = rd
        return rd

    def _rp_full(self, p):
        was = self.active
        self.active = False
        try:
            return posixpath.realpath(p)
        finally:
            self.active = was

    _RP_NEUTRAL = frozenset(['mkdir', 'open_w', 'write', 'fwrite', 'chmod', 'utime', 'truncate', 'chown', 'lchown', 'sendfile',
                             'setxattr', 'fsync', 'close', 'mkfifo', 'mknod'])

    def _rp_invalidate(self, kind, vs):
        """what a mutating operation leaves of the realpath memo.  A resolution changes only when a symlink appears,
        disappears or is replaced on its way: a missing component resolves lexically, exactly as an ordinary one does, so
        creating or removing a directory or a regular file, or writing, changes no resolution (a deep tree is removed from
        the bottom without re-walking its whole depth after every unlink).  Removing a symlink, and everything else (rename,
        symlink, link ...), clears the memo."""
        if kind in self._RP_NEUTRAL:
            return
        if kind == 'rmdir':
            return              # (rmdir of a symlink fails with ENOTDIR: nothing changes)
        if kind in ('unlink', 'remove') and isinstance(vs, str):
            va = self.vabs(vs)
            if isinstance(va, str) and va.startswith('/'):
                try:
                    if not statmod.S_ISLNK(O.lstat(self.root + va).st_mode):
                        return
                except OSError:
                    return      # the operation is going to fail the same way
        self._rp_cache.clear()

    def vabs(self, vs):
        """lexical absolute virtual path for logging / rule matching"""
        if isinstance(vs, str) and not vs.startswith('/') and not vs.startswith('<'):
            c = self.cur.cwd
            return (c if c != '/' else '') + '/' + vs
        return vs

    def fixerr(self, e):
        fn = getattr(e, 'filename', None)
        if fn is not None:
            try:
                e.filename = self.v(fn)
            except Exception:
                pass
        fn2 = getattr(e, 'filename2', None)
        if fn2 is not None:
            try:
                e.filename2 = self.v(fn2)
            except Exception:
                pass
        return e

    # ---- volumes ---------------------------------------------------------
    def real_resolved_parent(self, vs, dir_fd=None):
        """virtual, symlink-free path of the entry named by ``vs`` without
        following the last component.  Uses original syscalls."""
        if isinstance(vs, int):
            return self.cur.fds.get(vs, '/')
        if dir_fd is not None and not vs.startswith('/'):
            base = self.cur.fds.get(dir_fd, '/')
            vs = posixpath.join(base, vs)
        elif not vs.startswith('/'):
            vs = posixpath.join(self.cur.cwd, vs)
        s = vs.rstrip('/') or '/'
        if s == '/':
            return '/'
        d, b = posixpath.split(s)
        rd = self._orig_realpath(self.root + d) if d != '/' else self.root
        vd = self.v(rd)
        if b == '..':
            return posixpath.dirname(vd) or '/'
        if b == '.':
            return vd
        return (vd if vd != '/' else '') + '/' + b

    def volume_of_resolved(self, vres):
        best = '/'
        for m in self.mounts:
            if m != '/' and (vres == m or vres.startswith(m + '/')) and len(m) > len(best):
                best = m
        return best

    def devify(self, st, vs, follow, vbase=None):
        """stat result with the st_dev of the simulated volume the object is on"""
        if len(self.mounts) < 2 or self.devmode == 'shared':
            return st
        try:
            if isinstance(vs, int):
                vs = self.cur.fds.get(vs)
                follow = True
            if isinstance(vs, bytes):
                vs = os.fsdecode(vs)
            if not isinstance(vs, str):
                return st
            if vbase is not None and not vs.startswith('/'):
                vs = posixpath.join(vbase, vs)
            if not vs.startswith('/'):
                if vs.startswith('<'):
                    return st
                vs = posixpath.join(self.cur.cwd, vs)
            if follow:
                res = self.v(self._orig_realpath(self.root + vs))
            else:
                res = self.real_resolved_parent(vs)
            vol = self.volume_of_resolved(res)
            binds = getattr(self, 'binds', None) or ()
            while vol in binds and vol != '/':
                vol = self.volume_of_resolved(posixpath.dirname(vol) or '/')
            t = list(st)
            t[2] = 0x3000 + self.mounts.index(vol)
            # inode numbers are per file system and small ones repeat: the root of every volume is inode 2, and what is created
            # first on a fresh volume - the trash skeleton - gets the same numbers on every identically made volume
            ino = self.skeleton_ino(vol, res)
            if ino is not None:
                t[1] = ino
            return os.stat_result(t, st.__reduce__()[1][1])
        except Exception:
            return st

    @staticmethod
    def skeleton_ino(vol, res):
        if vol == '/':
            return None
        if res == vol:
            return 2
        parts = res[len(vol) + 1:].split('/')
        if not parts[0].startswith('.Trash') or len(parts) > 3:
            return None
        base = 11
        if parts[0] == '.Trash':
            if len(parts) == 1:
                return base
            if not parts[1].isdigit():
                return None
            base = 20 + (int(parts[1]) % 1000) * 10
            rest = parts[2:]
        elif parts[0].startswith('.Trash-') and parts[0][7:].isdigit():
            base = 10020 + (int(parts[0][7:]) % 1000) * 10
            rest = parts[1:]
        else:
            return None
        if not rest:
            return base
        if len(rest) == 1 and rest[0] in ('files', 'info'):
            return base + (1 if rest[0] == 'files' else 2)
        return None

    def volume_for_entry(self, vs, dir_fd=None):
        """(volume that the *directory entry* lives on, resolved path,
        is_mount_root)"""
        res = self.real_resolved_parent(vs, dir_fd)
        if res in self.mounts and res != '/':
            # the entry is itself a mount root: the entry (as a name) lives
            # on the parent's volume, the thing mounted there is busy
            par = posixpath.dirname(res) or '/'
            return self.volume_of_resolved(par), res, True
        return self.volume_of_resolved(res), res, False

    def ismount(self, path):
        """replacement for posixpath.ismount while a simulation is active"""
        try:
            st = os.lstat(path)           # through the wrapper: it is an op
        except (OSError, ValueError):
            return False
        if statmod.S_ISLNK(st.st_mode):
            return False
        if not statmod.S_ISDIR(st.st_mode):
            return False
        p = os.fspath(path)
        if isinstance(p, bytes):
            p = os.fsdecode(p)
        if not p.startswith('/'):
            p = posixpath.join(self.cur.cwd, p)
        real = self.v(self._orig_realpath(self.root + p))
        # a bind mount of a directory of the same file system (world['binds']) is in the mount table and in the partition
        # listing, and rename(2) across it fails with EXDEV, but st_dev is that of the enclosing volume and the inode differs
        # from the parent's: os.path.ismount() says False
        return real in self.mounts and real not in (getattr(self, 'binds', None) or ())

    # ---- the op pipeline -------------------------------------------------
    def begin(self, name, vs, extra=None, vs2=None, cls=None):
        """record + schedule + crash + fault.  Returns the event (a list)
        [gseq, pid, name, path, path2, extra, result]"""
        p = self.cur
        if threading.current_thread() is not p.thread:
            raise HarnessError('op from a foreign thread')
        kind = cls or name
        mut = kind in MUTATING
        if mut and self._rp_cache:
            self._rp_invalidate(kind, vs)
        if p.killed:
            raise SimKilled()
        ev = [self.gseq, p.pid, kind, self.vabs(vs),
              self.vabs(vs2) if vs2 is not None else None, extra, None]
        if self.sched is not None:
            self.sched.point(p, ev)       # may run other processes first
            if p.killed:
                raise SimKilled()
            ev[0] = self.gseq
        # crash?
        if (p.kill_at is not None and p.nops >= p.kill_at) or \
                (mut and p.kill_at_mut is not None and p.nmut >= p.kill_at_mut):
            p.killed = True
            self.trace.append([self.gseq, p.pid, 'KILL', ev[2], ev[3], None, None])
            self.gseq += 1
            raise SimKilled()
        if mut and p.intr_at_mut is not None and p.nmut >= p.intr_at_mut:
            # Ctrl-C: delivered once, between two system calls; the process
            # unwinds through its own except/finally blocks, whose file-system
            # calls are executed normally
            p.intr_at_mut = None
            self.trace.append([self.gseq, p.pid, 'INTR', ev[2], ev[3], None, None])
            self.gseq += 1
            raise KeyboardInterrupt()
        self.gseq += 1
        p.nops += 1
        if mut:
            p.nmut += 1
        if p.nops > p.max_ops:
            p.killed = True
            self.trace.append([self.gseq, p.pid, 'STEPLIMIT', None, None, None, None])
            raise StepLimit()
        self.trace.append(ev)
        if self.op_hook is not None:
            self.op_hook()          # simulated time passes with every system call (sim.proc: CLOCK.op_tick)
        # fault?
        if self.faults:
            err = self.match_fault(p, ev, mut)
            if err is not None:
                ev[6] = 'FAULT:' + E.errorcode.get(err, str(err))
                exc = OSError(err, os.strerror(err))
                if isinstance(vs, str) and not vs.startswith('<'):
                    exc.filename = vs
                raise exc
        for m in self.monitors:
            m(ev, 'pre')
        self.in_op = True
        return ev

    def match_fault(self, p, ev, mut):
        for i, f in enumerate(self.faults):
            if f.get('pid') is not None and f['pid'] != p.pid:
                continue
            kind = f['kind']
            if kind == 'shot':
                # the k-th op (0-based, counted over ops of that process that
                # match name) fails with errno
                if f.get('op') is not None and f['op'] != ev[2]:
                    continue
                if f.get('at') is not None:      # absolute op index in process
                    if p.nops - 1 != f['at']:
                        continue
                else:
                    if f.get('path') is not None and f['path'] != ev[3]:
                        continue
                    k = f['_n']
                    f['_n'] += 1
                    if k != f.get('k', 0):
                        continue
                self.fired.append((i, ev[0]))
                if f.get('short'):
                    # not an error: write(2) takes only a part of the buffer and says so (a file-size limit, a quota or a full
                    # disk reached in the middle of the buffer, a signal): the caller has to go on with the rest
                    self.short_next = True
                    return None
                return f['errno']
            elif kind == 'cond':
                # persistent condition from op index `from` on
                if p.nops - 1 < f.get('from', 0) and f.get('pid') is not None:
                    continue
                err = self.cond_applies(f, ev, mut)
                if err is not None:
                    self.fired.append((i, ev[0]))
                    return err
        return None

    def cond_applies(self, f, ev, mut):
        what = f['what']
        name = ev[2]
        if what == 'readonly':      # volume V mounted read-only
            if not mut:
                return None
            for pth in (ev[3], ev[4]):
                if isinstance(pth, str) and pth.startswith('/'):
                    vol, _res, _mr = self.volume_for_entry(pth)
                    if vol == f['volume']:
                        return E.EROFS
            return None
        if what == 'full':          # volume V has no space left
            if name not in CREATING and name not in ('fwrite', 'write', 'sendfile', 'copy_file_range'):
                return None
            pth = ev[3]
            if isinstance(pth, str) and pth.startswith('/'):
                vol, _res, _mr = self.volume_for_entry(pth)
                if vol == f['volume']:
                    return f.get('errno', E.ENOSPC)
            return None
        if what == 'dir_not_writable':   # no w permission on directory D
            if name not in ('mkdir', 'rmdir', 'unlink', 'remove', 'rename', 'replace',
                            'link', 'symlink', 'open_w', 'mkfifo', 'mknod'):
                return None
            if name == 'open_w' and not (ev[5] or {}).get('creates', True):
                return None
            for pth in (ev[3], ev[4]):
                if isinstance(pth, str) and pth.startswith('/'):
                    res = self.real_resolved_parent(pth)
                    if (posixpath.dirname(res) or '/') == f['dir']:
                        return E.EACCES
            return None
        if what == 'immutable':     # entry X cannot be renamed/unlinked/changed
            if name not in ('rmdir', 'unlink', 'remove', 'rename', 'replace', 'chmod',
                            'utime', 'truncate', 'link', 'open_w', 'setxattr'):
                return None
            pth = ev[3]
            if isinstance(pth, str) and pth.startswith('/'):
                res = self.real_resolved_parent(pth)
                if res == f['entry']:
                    return E.EPERM
            return None
        if what == 'eio_under':     # everything below D fails with EIO
            for pth in (ev[3], ev[4]):
                if isinstance(pth, str) and pth.startswith('/'):
                    if pth == f['dir'] or pth.startswith(f['dir'] + '/'):
                        return E.EIO
            return None
        if what == 'dir_not_searchable':   # D lost its search (x) bit: every lookup THROUGH D fails, D itself can be stat'ed
            for pth in (ev[3], ev[4]):
                if isinstance(pth, str) and pth.startswith(f['dir'] + '/'):
                    return E.EACCES
            return None
        if what == 'dir_not_readable':     # D has w and x but no r bit (a drop box, mode 0300 / 1733): listing it fails, lookups and changes work
            if name not in ('listdir', 'scandir', 'open'):
                return None
            pth = ev[3]
            if isinstance(pth, str) and pth.startswith('/'):
                try:
                    res = self.v(self._orig_realpath(self.root + pth))
                except Exception:
                    return None
                if res == f['dir']:
                    return E.EACCES
            return None
        if what == 'op_errno':      # every op named N on a path under D fails
            if name != f['op']:
                return None
            pth = ev[3]
            d = f.get('dir')
            if d is None or (isinstance(pth, str) and (pth == d or pth.startswith(d + '/'))):
                return f['errno']
            return None
        if what == 'name_errno':    # op N on any path whose last component is B fails (whatever directory)
            if name not in f['ops']:
                return None
            pth = ev[3]
            if isinstance(pth, str):
                b = posixpath.basename(pth)
                if b == f.get('basename') or ('prefix' in f and b.startswith(f['prefix']) and b.endswith(f.get('suffix', ''))):
                    return f['errno']
            return None
        if what == 'file_size_limit':     # enforced inside the write wrapper (short count, then EFBIG)
            return None
        raise HarnessError('unknown condition %r' % (what,))

    def done(self, ev, result=None):
        self.in_op = False
        ev[6] = result
        if self.fsize and ev[2] in ('unlink', 'remove', 'rename', 'replace', 'open_w'):
            # the per-file byte counters of file_size_limit follow the file: gone or truncated -> counts from 0 again
            self.fsize.pop(ev[3], None)
        for m in self.monitors:
            m(ev, 'post')

    def fail(self, ev, e):
        self.in_op = False
        self.fixerr(e)
        ev[6] = 'E:' + E.errorcode.get(e.errno, str(e.errno)) if isinstance(e, OSError) and e.errno else 'E:' + type(e).__name__
        for m in self.monitors:
            m(ev, 'post')

    # ---- directory order --------------------------------------------------
    def permute(self, vdir, names):
        names = sorted(names)
        key = self.vabs(vdir)
        c = self.dircount.get(key, 0)
        self.dircount[key] = c + 1
        if self.dirsalt is None:
            return names
        rng = random.Random(_h(self.dirsalt, key, c))
        rng.shuffle(names)
        return names


def _pmatch(pat, p1, p2):
    for p in (p1, p2):
        if isinstance(p, str):
            if pat.endswith('*'):
                if p.startswith(pat[:-1]):
                    return True
            elif p == pat or p.endswith(pat):
                return True
    return False


K = Kernel()


# --------------------------------------------------------------------------
# wrappers
# --------------------------------------------------------------------------

def _simple(name, mut_cls=None, npaths=1, result=None):
    """wrapper factory for calls whose first ``npaths`` positional arguments
    are paths and which may take dir_fd / follow_symlinks keywords"""
    orig = getattr(O, name)

    if npaths == 1:
        def w(path, *a, **kw):
            if not K.active:
                return orig(path, *a, **kw)
            rp, vs = K.tin(path)
            dfd = kw.get('dir_fd')
            if dfd is not None and isinstance(vs, str) and not vs.startswith('/'):
                vs = posixpath.join(K.cur.fds.get(dfd, '<fd %d>' % dfd), vs)
            if name == 'access':
                # access(2) reports every error as 'no': os.access never raises
                try:
                    ev = K.begin(name, vs)
                except OSError:
                    return False
            else:
                ev = K.begin(name, vs)
            try:
                res = orig(rp, *a, **kw)
            except OSError as e:
                K.fail(ev, e)
                raise
            K.done(ev, result(res) if result else None)
            if name in ('stat', 'lstat'):
                res = K.devify(res, vs, name == 'stat' and kw.get('follow_symlinks', True))
            return res
    else:
        def w(src, dst, *a, **kw):
            if not K.active:
                return orig(src, dst, *a, **kw)
            rs, vs = K.tin(src)
            rd, vd = K.tin(dst)
            ev = K.begin(name, vs, vs2=vd)
            try:
                res = orig(rs, rd, *a, **kw)
            except OSError as e:
                K.fail(ev, e)
                raise
            K.done(ev, None)
            return res
    w.__name__ = name
    w.__qualname__ = name
    return w


def _stat_result(st):
    return statmod.S_IFMT(st.st_mode) >> 12


W = {}

for _n in ('stat', 'lstat', 'access', 'chmod', 'lchmod', 'chown', 'lchown', 'utime', 'truncate',
           'listxattr', 'getxattr', 'setxattr', 'removexattr', 'statvfs', 'mkfifo', 'mknod'):
    if hasattr(O, _n):
        W[_n] = _simple(_n, result=_stat_result if _n in ('stat', 'lstat') else None)


def w_mkdir(path, mode=0o777, *, dir_fd=None):
    if not K.active:
        return O.mkdir(path, mode, dir_fd=dir_fd)
    rp, vs = K.tin(path)
    if dir_fd is not None and not vs.startswith('/'):
        vs = posixpath.join(K.cur.fds.get(dir_fd, '<fd>'), vs)
    ev = K.begin('mkdir', vs, extra={'mode': mode})
    try:
        O.mkdir(rp, mode, dir_fd=dir_fd)
    except OSError as e:
        K.fail(ev, e)
        raise
    K.done(ev)


def _rm(name):
    orig = getattr(O, name)

    def w(path, *, dir_fd=None):
        if not K.active:
            return orig(path, dir_fd=dir_fd)
        rp, vs = K.tin(path)
        if dir_fd is not None and not vs.startswith('/'):
            vs = posixpath.join(K.cur.fds.get(dir_fd, '<fd>'), vs)
        ev = K.begin(name, vs)
        try:
            if name == 'rmdir':
                _vol, res, mr = K.volume_for_entry(vs)
                if mr:
                    raise OSError(E.EBUSY, os.strerror(E.EBUSY), vs)
            orig(rp, dir_fd=dir_fd)
        except OSError as e:
            K.fail(ev, e)
            raise
        K.done(ev)
    w.__name__ = w.__qualname__ = name
    return w


def _mv(name):
    orig = getattr(O, name)

    def w(src, dst, *, src_dir_fd=None, dst_dir_fd=None):
        if not K.active:
            return orig(src, dst, src_dir_fd=src_dir_fd, dst_dir_fd=dst_dir_fd)
        rs, vs = K.tin(src)
        rd, vd = K.tin(dst)
        ev = K.begin(name, vs, vs2=vd)
        try:
            svol, sres, smr = K.volume_for_entry(vs, src_dir_fd)
            dvol, dres, dmr = K.volume_for_entry(vd, dst_dir_fd)
            # what is at the destination (first-class event for the oracles)
            try:
                dst_st = O.lstat(rd, dir_fd=dst_dir_fd)
                ev[5] = {'dst': statmod.S_IFMT(dst_st.st_mode) >> 12}
            except OSError:
                ev[5] = {'dst': None}
            try:
                O.lstat(rs, dir_fd=src_dir_fd)
                src_exists = True
            except OSError:
                src_exists = False
            if src_exists:
                # Linux do_renameat2: mount comparison of the two parent
                # directories first, then the busy checks
                if svol != dvol:
                    raise OSError(E.EXDEV, os.strerror(E.EXDEV), vs, None, vd)
                if smr or dmr:
                    raise OSError(E.EBUSY, os.strerror(E.EBUSY), vs, None, vd)
            orig(rs, rd, src_dir_fd=src_dir_fd, dst_dir_fd=dst_dir_fd)
            # a renamed directory takes the mounts below it along
            if any(m == sres or m.startswith(sres + '/') for m in K.mounts if m != '/'):
                K.mounts = sorted(set(
                    (dres + m[len(sres):]) if (m == sres or m.startswith(sres + '/')) else m
                    for m in K.mounts))
        except OSError as e:
            K.fail(ev, e)
            raise
        K.done(ev)
    w.__name__ = w.__qualname__ = name
    return w


def w_link(src, dst, *, src_dir_fd=None, dst_dir_fd=None, follow_symlinks=True):
    if not K.active:
        return O.link(src, dst, src_dir_fd=src_dir_fd, dst_dir_fd=dst_dir_fd,
                      follow_symlinks=follow_symlinks)
    rs, vs = K.tin(src)
    rd, vd = K.tin(dst)
    ev = K.begin('link', vd, vs2=vs)
    try:
        svol, _r, _m = K.volume_for_entry(vs, src_dir_fd)
        dvol, _r, _m = K.volume_for_entry(vd, dst_dir_fd)
        if svol != dvol:
            raise OSError(E.EXDEV, os.strerror(E.EXDEV), vs, None, vd)
        O.link(rs, rd, src_dir_fd=src_dir_fd, dst_dir_fd=dst_dir_fd,
               follow_symlinks=follow_symlinks)
    except OSError as e:
        K.fail(ev, e)
        raise
    K.done(ev)


def w_symlink(src, dst, target_is_directory=False, *, dir_fd=None):
    if not K.active:
        return O.symlink(src, dst, target_is_directory, dir_fd=dir_fd)
    s = os.fspath(src)
    sb = isinstance(s, bytes)
    ss = os.fsdecode(s) if sb else s
    rt = (K.root + ss) if ss.startswith('/') else ss   # absolute targets live inside the sandbox
    rd, vd = K.tin(dst)
    ev = K.begin('symlink', vd, extra={'target': ss})
    try:
        O.symlink(os.fsencode(rt) if sb else rt, rd, dir_fd=dir_fd)
    except OSError as e:
        K.fail(ev, e)
        raise
    K.done(ev)


def w_readlink(path, *, dir_fd=None):
    if not K.active:
        return O.readlink(path, dir_fd=dir_fd)
    rp, vs = K.tin(path)
    ev = K.begin('readlink', vs)
    try:
        res = O.readlink(rp, dir_fd=dir_fd)
    except OSError as e:
        K.fail(ev, e)
        raise
    res = K.v(res)
    K.done(ev, res if isinstance(res, str) else os.fsdecode(res))
    return res


def w_listdir(path='.'):
    if not K.active:
        return O.listdir(path)
    if isinstance(path, int):
        rp, vs = path, K.cur.fds.get(path, '<fd>')
    else:
        rp, vs = K.tin(path)
    ev = K.begin('listdir', vs)
    try:
        res = O.listdir(rp)
    except OSError as e:
        K.fail(ev, e)
        raise
    isb = bool(res) and isinstance(res[0], bytes)
    names = [os.fsdecode(x) for x in res] if isb else list(res)
    names = K.permute(vs, names)
    K.done(ev, len(names))
    return [os.fsencode(x) for x in names] if isb else names


class VDirEntry(object):
    __slots__ = ('_e', 'name', 'path', '_vfull')

    def __init__(self, e, vdir, isfd, vfull=None):
        self._e = e
        self.name = e.name
        self.path = e.name if isfd else posixpath.join(vdir, e.name)
        self._vfull = posixpath.join(vfull, e.name) if isinstance(vfull, str) and vfull.startswith('/') else None

    def __fspath__(self):
        return self.path

    def is_dir(self, *, follow_symlinks=True):
        return self._e.is_dir(follow_symlinks=follow_symlinks)

    def is_file(self, *, follow_symlinks=True):
        return self._e.is_file(follow_symlinks=follow_symlinks)

    def is_symlink(self):
        return self._e.is_symlink()

    def is_junction(self):
        return False

    def stat(self, *, follow_symlinks=True):
        st = self._e.stat(follow_symlinks=follow_symlinks)
        if self._vfull is not None and K.active:
            st = K.devify(st, self._vfull, follow_symlinks)
        return st

    def inode(self):
        return self._e.inode()

    def __repr__(self):
        return '<VDirEntry %r>' % (self.name,)


class VScandir(object):
    def __init__(self, entries):
        self._it = iter(entries)

    def __iter__(self):
        return self

    def __next__(self):
        return next(self._it)

    def close(self):
        self._it = iter(())

    def __enter__(self):
        return self

    def __exit__(self, *a):
        self.close()
        return False


def w_scandir(path='.'):
    if not K.active:
        return O.scandir(path)
    isfd = isinstance(path, int)
    if isfd:
        rp, vs = path, K.cur.fds.get(path, '<fd>')
    else:
        if path is None:
            path = '.'
        rp, vs = K.tin(path)
    ev = K.begin('scandir', vs)
    try:
        with O.scandir(rp) as it:
            ents = list(it)
    except OSError as e:
        K.fail(ev, e)
        raise
    # stat information must be fetched now (DirEntry caches lazily and the
    # entry may change before the caller looks)
    by = dict((e.name, e) for e in ents)
    vdir = os.fspath(path) if not isfd else ''
    if isinstance(vdir, bytes):
        vdir = os.fsdecode(vdir)
    order = K.permute(vs, list(by))
    K.done(ev, len(order))
    vfull = vs
    if isinstance(vfull, str) and not vfull.startswith('/') and not vfull.startswith('<'):
        vfull = posixpath.join(K.cur.cwd, vfull)
    return VScandir([VDirEntry(by[n], vdir, isfd, vfull) for n in order])


def _writes(flags):
    return bool(flags & (os.O_WRONLY | os.O_RDWR | os.O_CREAT | os.O_TRUNC | os.O_APPEND))


def w_open(path, flags, mode=0o777, *, dir_fd=None):
    if not K.active:
        return O.open(path, flags, mode, dir_fd=dir_fd)
    rp, vs = K.tin(path)
    if dir_fd is not None and not vs.startswith('/'):
        vs = posixpath.join(K.cur.fds.get(dir_fd, '<fd>'), vs)
    wr = _writes(flags)
    ev = K.begin('open', vs, extra={'flags': flags, 'creates': bool(flags & os.O_CREAT),
                                     'excl': bool(flags & os.O_EXCL), 'mode': mode},
                 cls='open_w' if wr else 'open')
    try:
        if len(K.cur.fds) + 3 >= K.cur.nofile:
            # the descriptor table of the simulated process is full (descriptors it never closed count)
            raise OSError(E.EMFILE, os.strerror(E.EMFILE), os.fspath(path) if not isinstance(path, int) else None)
        fd = O.open(rp, flags, mode, dir_fd=dir_fd)
    except OSError as e:
        K.fail(ev, e)
        raise
    K.cur.fds[fd] = K.vabs(vs)
    K.done(ev, 'fd')
    return fd


def w_close(fd):
    if not K.active:
        return O.close(fd)
    p = K.cur
    if p.killed:
        # the kernel closes descriptors of a dead process; not an op
        p.fds.pop(fd, None)
        try:
            O.close(fd)
        except OSError:
            pass
        raise SimKilled()
    ev = K.begin('close', p.fds.get(fd, '<fd %d>' % fd))
    try:
        O.close(fd)
    except OSError as e:
        K.fail(ev, e)
        raise
    p.fds.pop(fd, None)
    K.done(ev)


def _fdop(name):
    orig = getattr(O, name)

    def w(fd, *a, **kw):
        if not K.active:
            return orig(fd, *a, **kw)
        ev = K.begin(name, K.cur.fds.get(fd, '<fd %d>' % fd),
                     extra={'len': len(a[0])} if name == 'write' else None)
        if name == 'write' and K.faults and isinstance(ev[3], str):
            # a file-size limit (ulimit -f, a quota boundary) as a persistent condition: each file below D takes at most
            # `limit` bytes - the write that crosses the limit is SHORT, the next one fails with EFBIG
            for i_, f_ in enumerate(K.faults):
                if f_.get('kind') == 'cond' and f_.get('what') == 'file_size_limit' and ev[3].startswith(f_['dir'] + '/'):
                    done_ = K.fsize.get(ev[3], 0)
                    room = f_['limit'] - done_
                    if room <= 0:
                        K.fired.append((i_, ev[0]))
                        e_ = OSError(E.EFBIG, os.strerror(E.EFBIG))
                        K.fail(ev, e_)
                        raise e_
                    if len(a[0]) > room:
                        K.fired.append((i_, ev[0]))
                        a = (bytes(a[0])[:room],) + tuple(a[1:])
                        ev[5] = dict(ev[5] or {}, short=room)
                    K.fsize[ev[3]] = done_ + len(a[0])
                    break
        if name == 'write' and getattr(K, 'short_next', False):
            K.short_next = False
            if len(a[0]) > 1:
                a = (bytes(a[0])[:max(1, len(a[0]) // 2)],) + tuple(a[1:])
                ev[5] = dict(ev[5] or {}, short=len(a[0]))
        try:
            res = orig(fd, *a, **kw)
        except OSError as e:
            K.fail(ev, e)
            raise
        K.done(ev, res if isinstance(res, int) else None)
        if name == 'fstat':
            res = K.devify(res, fd, True)
        return res
    w.__name__ = w.__qualname__ = name
    return w


def w_sendfile(out_fd, in_fd, offset, count, *a, **kw):
    if not K.active:
        return O.sendfile(out_fd, in_fd, offset, count, *a, **kw)
    ev = K.begin('sendfile', K.cur.fds.get(out_fd, '<fd>'), vs2=K.cur.fds.get(in_fd, '<fd>'))
    try:
        res = O.sendfile(out_fd, in_fd, offset, count, *a, **kw)
    except OSError as e:
        K.fail(ev, e)
        raise
    K.done(ev, res)
    return res


def w_copy_file_range(src, dst, count, offset_src=None, offset_dst=None):
    if not K.active:
        return O.copy_file_range(src, dst, count, offset_src, offset_dst)
    ev = K.begin('copy_file_range', K.cur.fds.get(dst, '<fd>'), vs2=K.cur.fds.get(src, '<fd>'))
    try:
        res = O.copy_file_range(src, dst, count, offset_src, offset_dst)
    except OSError as e:
        K.fail(ev, e)
        raise
    K.done(ev, res)
    return res


def w_getcwd():
    if not K.active:
        return O.getcwd()
    ev = K.begin('getcwd', '.')
    try:
        res = O.getcwd()
    except OSError as e:
        K.fail(ev, e)
        raise
    res = K.v(res)
    K.done(ev, res)
    return res


def w_getcwdb():
    return os.fsencode(w_getcwd()) if K.active else O.getcwdb()


def w_chdir(path):
    if not K.active:
        return O.chdir(path)
    rp, vs = K.tin(path)
    ev = K.begin('chdir', vs)
    try:
        O.chdir(rp)
    except OSError as e:
        K.fail(ev, e)
        raise
    K.cur.cwd = K.v(O.getcwd())
    K.done(ev)


def w_getuid():
    if not K.active:
        return O.getuid()
    return K.cur.uid


def w_isatty(fd):
    if not K.active:
        return O.isatty(fd)
    if fd in (0, 1, 2):
        return K.cur.tty if fd == 0 else False
    return False


def w_get_terminal_size(*a):
    if not K.active:
        return O.get_terminal_size(*a)
    raise OSError(E.ENOTTY, os.strerror(E.ENOTTY))


# ---- python-level file objects ------------------------------------------

class SimWriter(object):
    """File object returned by open() for writing modes.  Data written stays
    in a user-space buffer until flush()/close(), each of which is one
    write(2) op - so a kill between write() and close() loses the buffered
    bytes exactly like a real process would."""

    def __init__(self, fd, vpath, binary, encoding, errors, name, mode):
        self._fd = fd
        self._vpath = vpath
        self._binary = binary
        self._encoding = encoding or 'utf-8'
        self._errors = errors or 'strict'
        self._buf = []
        self.closed = False
        self.name = name
        self.mode = mode
        self._proc = K.cur

    def fileno(self):
        return self._fd

    def writable(self):
        return True

    def readable(self):
        return False

    def seekable(self):
        return True

    def write(self, data):
        if self.closed:
            raise ValueError('I/O operation on closed file.')
        if self._binary:
            if isinstance(data, str):
                raise TypeError("a bytes-like object is required, not 'str'")
            self._buf.append(bytes(data))
        else:
            if not isinstance(data, str):
                raise TypeError('write() argument must be str, not %s' % type(data).__name__)
            self._buf.append(data.encode(self._encoding, self._errors))
        return len(data)

    def writelines(self, lines):
        for ln in lines:
            self.write(ln)

    def flush(self):
        if self.closed:
            raise ValueError('I/O operation on closed file.')
        if self._buf:
            data = b''.join(self._buf)
            ev = K.begin('write', self._vpath, extra={'len': len(data)}, cls='fwrite')
            try:
                O.write(self._fd, data)
            except OSError as e:
                K.fail(ev, e)
                raise
            self._buf = []
            K.done(ev, len(data))

    def close(self):
        if self.closed:
            return
        p = self._proc
        if p.killed:
            self._discard()
            raise SimKilled()
        try:
            self.flush()
        finally:
            if p.killed:
                self._discard()
            else:
                self.closed = True
                w_close(self._fd)

    def _discard(self):
        if not self.closed:
            self.closed = True
            self._buf = []
            self._proc.fds.pop(self._fd, None)
            try:
                O.close(self._fd)
            except OSError:
                pass

    def __enter__(self):
        return self

    def __exit__(self, *a):
        self.close()
        return False

    def tell(self):
        return O.lseek(self._fd, 0, os.SEEK_CUR) + sum(len(b) for b in self._buf)

    def truncate(self, size=None):
        self.flush()
        O.ftruncate(self._fd, self.tell() if size is None else size)

    def __del__(self):
        try:
            if not self.closed:
                self._discard()
        except Exception:
            pass


_MODEFLAGS = {
    'r': os.O_RDONLY, 'w': os.O_WRONLY | os.O_CREAT | os.O_TRUNC,
    'a': os.O_WRONLY | os.O_CREAT | os.O_APPEND, 'x': os.O_WRONLY | os.O_CREAT | os.O_EXCL,
}


def w_builtin_open(file, mode='r', buffering=-1, encoding=None, errors=None,
                   newline=None, closefd=True, opener=None):
    if not K.active:
        return O.builtin_open(file, mode, buffering, encoding, errors, newline, closefd, opener)
    if opener is not None:
        raise HarnessError('open() with opener is not simulated')
    binary = 'b' in mode
    plus = '+' in mode
    if not binary and encoding is None:
        # a text file opened without an encoding gets the encoding of the simulated process's locale (spec['locale_encoding'];
        # UTF-8 unless the case says otherwise)
        encoding = getattr(K.cur, 'locale_enc', None)
    base = [c for c in mode if c in 'rwax']
    if len(base) != 1:
        raise ValueError('invalid mode: %r' % mode)
    base = base[0]
    if isinstance(file, int):
        # wrap an existing descriptor
        if base == 'r' and not plus:
            return O.builtin_open(file, mode, buffering, encoding, errors, newline, closefd)
        return SimWriter(file, K.cur.fds.get(file, '<fd>'), binary, encoding, errors, file, mode)
    flags = _MODEFLAGS[base] | os.O_CLOEXEC
    if plus:
        flags = (flags & ~(os.O_WRONLY | os.O_RDONLY)) | os.O_RDWR
    fd = w_open(file, flags, 0o666)       # one op; honours umask like open(2)
    vpath = K.cur.fds.get(fd)
    if base == 'r' and not plus:
        # reading handle: a real file object on the descriptor.  The reads
        # themselves are not separate ops (open+read of a small file is one
        # step of the simulation).
        try:
            f = O.builtin_open(fd, mode, buffering, encoding, errors, newline, True)
        except OSError as e:
            # e.g. the path is a directory: open(2) succeeded, the file object refuses it.  The real open() closes the
            # descriptor and names the PATH in the error, not a descriptor number
            K.cur.fds.pop(fd, None)
            try:
                O.close(fd)
            except OSError:
                pass
            raise OSError(e.errno, e.strerror, os.fspath(file)) from None
        rd = SimReader(f, fd, K.cur, file)
        K.cur.readers.append(rd)
        return rd
    if plus:
        raise HarnessError('open() mode %r is not simulated' % mode)
    w = SimWriter(fd, vpath, binary, encoding, errors, file, mode)
    K.cur.writers.append(w)
    return w


class SimReader(object):
    """thin proxy so that close() is an op and fd bookkeeping stays right"""

    def __init__(self, f, fd, proc, name):
        self._f = f
        self._fd = fd
        self._proc = proc
        self.name = name

    def __getattr__(self, n):
        return getattr(self._f, n)

    def __iter__(self):
        return iter(self._f)

    def __enter__(self):
        return self

    def __exit__(self, *a):
        self.close()
        return False

    def close(self):
        if self._f.closed:
            return
        p = self._proc
        if p.killed:
            p.fds.pop(self._fd, None)
            self._f.close()
            raise SimKilled()
        ev = K.begin('close', p.fds.get(self._fd, '<fd>'))
        self._f.close()
        p.fds.pop(self._fd, None)
        K.done(ev)

    def __del__(self):
        try:
            if not self._f.closed:
                self._proc.fds.pop(self._fd, None)
                self._f.close()
        except Exception:
            pass


def w_ismount(path):
    if not K.active:
        return O.ismount(path)
    return K.ismount(path)


W.update({
    'mkdir': w_mkdir, 'rmdir': _rm('rmdir'), 'unlink': _rm('unlink'), 'remove': _rm('remove'),
    'rename': _mv('rename'), 'replace': _mv('replace'), 'link': w_link, 'symlink': w_symlink,
    'readlink': w_readlink, 'listdir': w_listdir, 'scandir': w_scandir, 'open': w_open,
    'close': w_close, 'read': _fdop('read'), 'write': _fdop('write'), 'fstat': _fdop('fstat'),
    'sendfile': w_sendfile, 'getcwd': w_getcwd, 'getcwdb': w_getcwdb, 'chdir': w_chdir,
    'getuid': w_getuid, 'geteuid': w_getuid, 'isatty': w_isatty,
    'get_terminal_size': w_get_terminal_size, 'ftruncate': _fdop('ftruncate'),
    'fsync': _fdop('fsync'), 'fdatasync': _fdop('fdatasync'), 'lseek': _fdop('lseek'),
    'fchmod': _fdop('fchmod'), 'fchown': _fdop('fchown'),
})
if hasattr(O, 'copy_file_range'):
    W['copy_file_range'] = w_copy_file_range

_installed = False

AUDITED = frozenset([
    'open', 'os.chmod', 'os.chown', 'os.link', 'os.listdir', 'os.mkdir', 'os.remove', 'os.rename', 'os.rmdir',
    'os.scandir', 'os.symlink', 'os.truncate', 'os.utime', 'os.setxattr', 'os.removexattr', 'os.listxattr',
    'os.getxattr', 'os.chdir', 'os.mkfifo', 'os.mknod', 'os.chflags', 'os.lchflags', 'os.exec', 'os.fork',
    'os.posix_spawn', 'os.system', 'subprocess.Popen', 'socket.connect', 'socket.bind',
])


class environment(object):
    """bracket for actions of the simulated ENVIRONMENT (another user, an administrator) performed with the real system
    calls while a simulated process is scheduled: they are not ops of that process and not seam bypasses"""

    def __enter__(self):
        self.saved = K.active
        K.active = False
        return O

    def __exit__(self, *a):
        K.active = self.saved
        K._rp_cache.clear()
        return False


def _audit(event, args):
    # seam completeness tripwire (DESIGN 5.2a): while a simulated process is
    # running, every C-level file-system call must happen inside an op
    # bracket of the virtual kernel
    if K.active and not K.in_op and event in AUDITED:
        if event == 'open' and args and isinstance(args[0], int):
            return          # python file object wrapped around a descriptor we opened in a bracket
        K.bypass.append((event, repr(args)[:200]))


def install():
    """replace the entry points (idempotent).  Transparent while K.active is
    False."""
    global _installed
    if _installed:
        return
    _installed = True
    for name, w in W.items():
        orig = getattr(O, name, None)
        if orig is None:
            continue
        for setname in ('supports_dir_fd', 'supports_fd', 'supports_follow_symlinks',
                        'supports_effective_ids', 'supports_bytes_environ'):
            s = getattr(os, setname, None)
            if isinstance(s, set) and orig in s:
                s.add(w)
        setattr(os, name, w)
        if hasattr(posixpath.os, name):
            pass
    sys.addaudithook(_audit)
    posixpath.ismount = w_ismount
    builtins.open = w_builtin_open
    io.open = w_builtin_open
    # shutil decided on fd-based rmtree at import time with the original
    # functions; keep that decision (it is what the real interpreter does)
    import shutil
    assert shutil._use_fd_functions
