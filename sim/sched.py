"""Concurrent simulated processes (DESIGN 2.2): every process runs the real
main() on its own thread, but only the thread holding the baton is runnable.
Every vkernel op is a scheduling point; the chooser - a pure function of the
run's PRNG or of a recorded choice list - decides who proceeds.  The recorded
choice list is what a replay file contains."""
from __future__ import annotations

import logging
import os
import sys
import threading

from . import proc as P
from .vkernel import K, O, HarnessError, SimKilled


class Chooser(object):
    """strategies: 'uniform', 'pct', 'sweep', 'sweepfault', 'replay'"""

    def __init__(self, rng, strategy='uniform', nprocs=2, choices=None, depth=2, est_ops=200, sweep=None):
        self.rng = rng
        self.strategy = strategy
        self.replay = list(choices) if choices is not None else None
        self.recorded = []
        self.step = 0
        if strategy == 'pct':
            self.prio = list(range(nprocs))
            rng.shuffle(self.prio)
            self.change = sorted(rng.randrange(1, max(2, est_ops)) for _ in range(depth))
        self.sweep = sweep or {}
        self.shared_ops = {}
        self.after_fault = 0

    def choose(self, cur, runnable, ev, shared):
        """cur: pid currently holding the baton (None at start / after exit);
        runnable: sorted list of pids"""
        self.step += 1
        if self.replay is not None:
            c = self.replay.pop(0) if self.replay else None
            if c not in runnable:
                c = cur if cur in runnable else runnable[0]
        elif self.strategy == 'uniform':
            # mostly continue, so that long stretches and fine interleavings both occur
            if cur in runnable and self.rng.random() < 0.5:
                c = cur
            else:
                c = self.rng.choice(runnable)
        elif self.strategy == 'pct':
            while self.change and self.step >= self.change[0]:
                self.change.pop(0)
                # lower the priority of the running process
                if cur is not None and (cur - 1) < len(self.prio):
                    v = self.prio[cur - 1]
                    self.prio[cur - 1] = min(self.prio) - 1
            c = max(runnable, key=lambda pid: self.prio[pid - 1])
        elif self.strategy == 'sweep':
            # run process A until its k-th op on the shared trash dir, then the
            # others to completion, then A
            a, k = self.sweep.get('pid', 1), self.sweep.get('k', 0)
            if shared and cur == a:
                self.shared_ops[a] = self.shared_ops.get(a, 0) + 1
            if a in runnable and self.shared_ops.get(a, 0) <= k:
                c = a
            else:
                others = [p for p in runnable if p != a]
                c = others[0] if others else a
        elif self.strategy == 'sweepfault':
            # run process A until j shared ops after an injected fault has
            # fired in it (i.e. into its recovery path), then the others to
            # completion, then A
            a, j = self.sweep.get('pid', 1), self.sweep.get('j', 0)
            fired = bool(K.fired)
            if fired and shared and cur == a:
                self.after_fault += 1
            if a in runnable and (not fired or self.after_fault <= j):
                c = a
            else:
                others = [p for p in runnable if p != a]
                c = others[0] if others else a
        else:
            raise HarnessError('unknown strategy %r' % self.strategy)
        self.recorded.append(c)
        return c


class Scheduler(object):
    def __init__(self, procs, chooser, shared_prefixes=()):
        self.procs = dict((p.pid, p) for p in procs)
        self.chooser = chooser
        self.cv = threading.Condition()
        self.baton = None
        self.finished = set()
        self.all_done = threading.Event()
        self.error = None
        self.shared_prefixes = tuple(shared_prefixes)
        self.switches = 0
        self.aborted = False
        self.interleaving = []      # (pid, op, path) restricted to shared paths

    # ---- context switching -------------------------------------------------
    def switch_out(self, p):
        K.active = False
        K.cur = None
        try:
            p.cwd = K.v(O.getcwd())
        except OSError:
            pass
        p.env = dict(os.environ)

    def switch_in(self, q):
        sys.argv = list(q.argv)
        sys.stdin, sys.stdout, sys.stderr = q.stdio.stdin, q.stdio.stdout, q.stdio.stderr
        os.environ.clear()
        os.environ.update(q.env)
        for h in P.lib_logger.my_logger.handlers:
            if isinstance(h, logging.StreamHandler):
                h.setStream(q.stdio.stderr)
        O.chdir(K.r(q.cwd))
        K.cur = q
        K.active = True

    def runnable(self):
        return sorted(pid for pid in self.procs if pid not in self.finished)

    def is_shared(self, ev):
        for pth in (ev[3], ev[4]):
            if isinstance(pth, str) and any(pth.startswith(pre) for pre in self.shared_prefixes):
                return True
        return False

    # ---- called from vkernel.begin (thread of p, holding the baton) -----------
    def point(self, p, ev):
        shared = self.is_shared(ev)
        nxt = self.chooser.choose(p.pid, self.runnable(), ev, shared)
        if nxt != p.pid:
            self.hand_over(p, nxt)
        if shared:
            self.interleaving.append((p.pid, ev[2], ev[3]))

    def hand_over(self, p, nxt):
        q = self.procs[nxt]
        self.switches += 1
        self.switch_out(p)
        self.switch_in(q)
        with self.cv:
            self.baton = nxt
            self.cv.notify_all()
            while self.baton != p.pid:
                if self.aborted:
                    p.killed = True
                    raise SimKilled()
                if not self.cv.wait(timeout=60):
                    self.error = 'scheduler deadlock (pid %d waited 60 s)' % p.pid
                    raise SimKilled()
        # resumed: whoever passed the baton already switched our context in

    def wait_turn(self, p):
        with self.cv:
            while self.baton != p.pid:
                if self.aborted:
                    raise SimKilled()
                if not self.cv.wait(timeout=60):
                    self.error = 'scheduler deadlock at start (pid %d)' % p.pid
                    raise SimKilled()

    def finish(self, p):
        if self.aborted:
            self.finished.add(p.pid)
            return
        self.finished.add(p.pid)
        self.switch_out(p)
        rest = self.runnable()
        if not rest:
            with self.cv:
                self.baton = None
            self.all_done.set()
            return
        nxt = self.chooser.choose(None, rest, [None, None, 'EXIT', None, None, None, None], False)
        self.switch_in(self.procs[nxt])
        with self.cv:
            self.baton = nxt
            self.cv.notify_all()


def run_concurrent(sim, specs, chooser, shared_prefixes=()):
    """run the processes described by ``specs`` concurrently under
    ``chooser``; returns (list of ProcResult, scheduler)"""
    from .run import ProcResult
    procs = []
    for spec in specs:
        sim.npid += 1
        p = P.make_proc(sim.npid, spec)
        procs.append(p)
    sch = Scheduler(procs, chooser, shared_prefixes)
    K._rp_cache.clear()
    saved = (sys.argv, sys.stdin, sys.stdout, sys.stderr, dict(os.environ), O.getcwd())
    old_umask = os.umask(K.umask)
    t0 = len(K.trace)

    def runner(p):
        try:
            sch.wait_turn(p)
            P._body(p)
        except BaseException as e:        # HarnessError etc.
            if not sch.aborted:
                sch.error = sch.error or repr(e)
        finally:
            try:
                sch.finish(p)
            except BaseException as e:
                sch.error = sch.error or repr(e)
                sch.all_done.set()

    threads = []
    for p in procs:
        t = threading.Thread(target=runner, args=(p,), name='simproc-%d' % p.pid, daemon=True)
        p.thread = t
        threads.append(t)
    K.sched = sch
    try:
        for t in threads:
            t.start()
        first = chooser.choose(None, sch.runnable(), [None, None, 'START', None, None, None, None], False)
        sch.switch_in(sch.procs[first])
        with sch.cv:
            sch.baton = first
            sch.cv.notify_all()
        if not sch.all_done.wait(timeout=120):
            sch.error = sch.error or 'concurrent run did not finish within 120 s'
        for t in threads:
            t.join(timeout=5)
    except BaseException:
        # release every parked thread so that none outlives this run
        with sch.cv:
            sch.aborted = True
            sch.cv.notify_all()
        for t in threads:
            t.join(timeout=10)
        raise
    finally:
        # whatever happened: no parked thread may outlive this run
        with sch.cv:
            sch.aborted = True
            sch.cv.notify_all()
        for t in threads:
            if t.is_alive():
                t.join(timeout=10)
        K.sched = None
        K.active = False
        K.cur = None
        os.umask(old_umask)
        argv, sin, sout, serr, env, cwd = saved
        sys.argv = argv
        sys.stdin, sys.stdout, sys.stderr = sin, sout, serr
        os.environ.clear()
        os.environ.update(env)
        try:
            O.chdir(cwd)
        except OSError:
            O.chdir('/')
    if sch.error:
        raise HarnessError(sch.error)
    if K.bypass:
        raise HarnessError('call(s) bypassed the seam: %r' % (K.bypass[:5],))
    if threading.active_count() != 1:
        raise HarnessError('simulated process threads still alive: %r' % threading.enumerate())
    results = []
    for p in procs:
        P.finish(p)
        r = ProcResult()
        r.pid = p.pid
        r.argv = list(p.spec['argv'])
        r.exit = p.exit
        r.out = p.stdio.out()
        r.err = p.stdio.err()
        r.exc = (type(p.exc).__name__ + ': ' + str(p.exc)) if p.exc is not None else None
        r.exc_frame = P.exc_frame(p)
        r.trace = [ev for ev in K.trace[t0:] if ev[1] == p.pid]
        r.nops = p.nops
        r.nmut = p.nmut
        r.killed = p.killed
        r.clock = []
        r.replies = []
        r.prompted = []
        r.stdin_read = p.stdio.inb.tell() > 0
        sim.log.append(r.as_log())
        if r.exit == -99:
            sim.hung.append((r.argv, r.nops, r.errs[-300:]))
        sim.ops_total += r.nops
        sim.sims_total += 1
        results.append(r)
    return results, sch
