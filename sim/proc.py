"""Simulated processes: run the real ``trashcli.<cmd>.main.main()`` with the
per-process kernel state (argv, environment, stdio, cwd, uid, tty) swapped in,
on the virtual kernel."""
from __future__ import annotations

import datetime as _dt
import io
import os
import sys
import threading
import traceback

from . import vkernel
from .vkernel import K, O, SimKilled, StepLimit, HarnessError, Proc

_real_environ_backup = None
_real_cwd = None

# ---- import everything of trashcli up front (no imports inside a run) -----
import trashcli                                   # noqa: E402
assert trashcli.__file__.startswith(os.environ.get('VERIF_REPO', '/repo') + '/'), trashcli.__file__
import psutil                                     # noqa: E402
import trashcli.put.main as put_main              # noqa: E402
import trashcli.list.main as list_main            # noqa: E402
import trashcli.restore.main as restore_main      # noqa: E402
import trashcli.empty.main as empty_main          # noqa: E402
import trashcli.rm.main as rm_main                # noqa: E402
import trashcli.put.clock as put_clock            # noqa: E402
import trashcli.lib.logger as lib_logger          # noqa: E402
import trashcli.empty.older_than                  # noqa: E402
import trashcli.fstab.mount_points_listing        # noqa: E402
import shutil, argparse, fnmatch, logging, pprint, re, copy  # noqa: E402,E401
import encodings.utf_8, encodings.ascii, encodings.latin_1  # noqa: E402,E401

MAINS = {
    'trash-put': put_main.main,
    'trash-list': list_main.main,
    'trash-restore': restore_main.main,
    'trash-empty': empty_main.main,
    'trash-rm': rm_main.main,
}


# ---- simulated clock / randomness ----------------------------------------

class SimClock(object):
    """naive local datetime; advanced by a script between commands and by a
    small tick on every reading.  The zone of the simulated machine is a
    standard offset plus, optionally, a DST rule ('north': DST from 29 March
    02:00 to 25 October 03:00 standard time; 'south': from 4 October to 5 April)."""

    def __init__(self):
        self.now = _dt.datetime(2024, 1, 1, 12, 0, 0)
        self.tick = _dt.timedelta(microseconds=137)
        self.readings = []        # (pid, value, gseq)   value = local time
        self.op_tick = None                   # simulated time that every system call takes (None: none)
        self.std = _dt.timedelta(0)           # standard offset from UTC
        self.rule = None                      # None | 'north' | 'south'
        self.nonlocal_reads = 0

    def configure(self, utcoffset_s, dst):
        """utcoffset_s: the offset in effect at the start time; dst: None or {'has': bool, 'on': bool}"""
        eff = _dt.timedelta(seconds=utcoffset_s)
        self.rule = None
        self.std = eff
        if dst and dst.get('has'):
            on = bool(dst.get('on'))
            self.std = eff - (_HOUR if on else _dt.timedelta(0))
            try:
                ref = self.now - (_HOUR if on else _dt.timedelta(0))
            except OverflowError:
                ref = self.now          # (the first hour of year 1)
            for rule in ('north', 'south'):
                if _rule_active(rule, ref) == on:
                    self.rule = rule
                    break
            if self.rule is None:
                self.rule = 'north' if on else 'south'

    @property
    def has_dst(self):
        return self.rule is not None

    def offset_for_local(self, d):
        """UTC offset in effect at local wall-clock time d"""
        if self.rule is not None:
            try:
                if _rule_active(self.rule, d - _HOUR):
                    return self.std + _HOUR
            except OverflowError:
                pass
        return self.std

    def offset_for_utc(self, u):
        if self.rule is not None:
            try:
                if _rule_active(self.rule, u + self.std):
                    return self.std + _HOUR
            except OverflowError:
                pass
        return self.std

    @property
    def utcoffset(self):
        return self.offset_for_local(self.now)

    @property
    def dst_on(self):
        return self.utcoffset != self.std

    def op(self):
        if self.op_tick:
            try:
                self.now = self.now + self.op_tick
            except OverflowError:
                pass

    def read(self):
        v = self.now
        self.readings.append((K.cur.pid if K.cur else None, v, K.gseq))
        try:
            self.now = self.now + self.tick
        except OverflowError:
            pass
        return v


_HOUR = _dt.timedelta(hours=1)


def _rule_active(rule, std_local):
    """is DST in effect at this local STANDARD time under the rule?"""
    y = std_local.year
    if rule == 'north':
        return _dt.datetime(y, 3, 29, 2) <= std_local < _dt.datetime(y, 10, 25, 2)
    return std_local >= _dt.datetime(y, 10, 4, 2) or std_local < _dt.datetime(y, 4, 5, 2)


CLOCK = SimClock()


class _DatetimeShimMeta(type):
    """everything that is not a reading of the clock is the real datetime class"""
    def __getattr__(cls, name):
        return getattr(_dt.datetime, name)

    def __call__(cls, *a, **k):
        return _dt.datetime(*a, **k)

    def __instancecheck__(cls, inst):
        return isinstance(inst, _dt.datetime)


class _DatetimeShim(object, metaclass=_DatetimeShimMeta):
    """stands in for the ``datetime`` *class* in trashcli.empty.main and
    trashcli.put.clock: the simulated machine has a local time (CLOCK.now)
    and a UTC offset (CLOCK.utcoffset); every way of asking the time is
    answered from them"""
    @staticmethod
    def now(tz=None):
        v = CLOCK.read()
        if tz is None:
            return v
        CLOCK.nonlocal_reads += 1
        return (v - CLOCK.offset_for_local(v)).replace(tzinfo=_dt.timezone.utc).astimezone(tz)

    @staticmethod
    def today():
        return CLOCK.read()

    @staticmethod
    def utcnow():
        CLOCK.nonlocal_reads += 1
        v = CLOCK.read()
        return v - CLOCK.offset_for_local(v)

    @staticmethod
    def fromtimestamp(ts, tz=None):
        utc = _EPOCH + _dt.timedelta(seconds=ts)
        if tz is None:
            return utc + CLOCK.offset_for_utc(utc)
        return utc.replace(tzinfo=_dt.timezone.utc).astimezone(tz)


_EPOCH = _dt.datetime(1970, 1, 1)


class _DateShimMeta(type):
    def __getattr__(cls, name):
        return getattr(_dt.date, name)

    def __call__(cls, *a, **k):
        return _dt.date(*a, **k)

    def __instancecheck__(cls, inst):
        return isinstance(inst, _dt.date)


class _DateShim(object, metaclass=_DateShimMeta):
    @staticmethod
    def today():
        return CLOCK.read().date()

    @staticmethod
    def fromtimestamp(ts):
        u_ = _EPOCH + _dt.timedelta(seconds=ts)
        return (u_ + CLOCK.offset_for_utc(u_)).date()


# ---- the time module: same clock, same zone ---------------------------------

import time as _time       # noqa: E402

_T = {'time': _time.time, 'time_ns': _time.time_ns, 'localtime': _time.localtime, 'gmtime': _time.gmtime,
      'strftime': _time.strftime, 'mktime': _time.mktime, 'ctime': _time.ctime, 'asctime': _time.asctime,
      'timezone': _time.timezone, 'altzone': _time.altzone, 'daylight': _time.daylight, 'tzname': _time.tzname}


def _sim_epoch():
    v = CLOCK.read()
    return (v - CLOCK.offset_for_local(v) - _EPOCH).total_seconds()


def _struct(d, isdst, gmtoff, zone):
    tt = d.timetuple()
    return _time.struct_time((tt.tm_year, tt.tm_mon, tt.tm_mday, tt.tm_hour, tt.tm_min, tt.tm_sec, tt.tm_wday, tt.tm_yday, isdst),
                             {'tm_zone': zone, 'tm_gmtoff': gmtoff})


def w_time():
    return _sim_epoch() if K.active else _T['time']()


def w_time_ns():
    return int(_sim_epoch() * 1e9) if K.active else _T['time_ns']()


def w_localtime(secs=None):
    if not K.active:
        return _T['localtime']() if secs is None else _T['localtime'](secs)
    if secs is None:
        secs = _sim_epoch()
    u = _EPOCH + _dt.timedelta(seconds=int(secs))
    off = CLOCK.offset_for_utc(u)
    dst = off != CLOCK.std
    return _struct(u + off, 1 if dst else 0, int(off.total_seconds()), 'SDT' if dst else 'SST')


def w_gmtime(secs=None):
    if not K.active:
        return _T['gmtime']() if secs is None else _T['gmtime'](secs)
    if secs is None:
        secs = _sim_epoch()
    return _struct(_EPOCH + _dt.timedelta(seconds=int(secs)), 0, 0, 'UTC')


def w_mktime(t):
    if not K.active:
        return _T['mktime'](t)
    d = _dt.datetime(*t[:6])
    return (d - CLOCK.offset_for_local(d) - _EPOCH).total_seconds()


def w_strftime(fmt, t=None):
    if not K.active:
        return _T['strftime'](fmt) if t is None else _T['strftime'](fmt, t)
    return _T['strftime'](fmt, w_localtime() if t is None else t)


def w_ctime(secs=None):
    if not K.active:
        return _T['ctime']() if secs is None else _T['ctime'](secs)
    return _T['asctime'](w_localtime(secs))


def w_asctime(t=None):
    if not K.active:
        return _T['asctime']() if t is None else _T['asctime'](t)
    return _T['asctime'](w_localtime() if t is None else t)


def apply_zone():
    """time.timezone / altzone / daylight / tzname of the simulated machine (module attributes: set per case)"""
    std = int(CLOCK.std.total_seconds())
    _time.timezone = -std
    _time.altzone = -(std + 3600) if CLOCK.has_dst else -std
    _time.daylight = 1 if CLOCK.has_dst else 0
    _time.tzname = ('SST', 'SDT' if CLOCK.has_dst else 'SST')


def restore_zone():
    for k in ('timezone', 'altzone', 'daylight', 'tzname'):
        setattr(_time, k, _T[k])


class _ModuleShimMeta(type):
    def __getattr__(cls, name):
        return getattr(_dt, name)


class _DatetimeModuleShim(object, metaclass=_ModuleShimMeta):
    """stands in for the ``datetime`` *module* in trashcli.put.clock"""
    datetime = _DatetimeShim
    date = _DateShim


class SimRandom(object):
    def __init__(self):
        self.script = []
        self.rng = None
        self.calls = 0

    def randint(self, a, b):
        self.calls += 1
        if self.script:
            return self.script.pop(0)
        return self.rng.randint(a, b)


RANDOM = SimRandom()


class _RandomShim(object):
    @staticmethod
    def randint(a, b):
        return RANDOM.randint(a, b)


def _fake_disk_partitions(all=False):
    from collections import namedtuple
    P = namedtuple('sdiskpart', ['device', 'mountpoint', 'fstype', 'opts'])
    # (world['same_device']: mount points that show the same device string - btrfs subvolumes, bind mounts of sub-directories)
    pool = set(getattr(K, 'same_device', None) or ())
    # (world['automount']: mount points under systemd / autofs automount control - the mount table names them twice, the autofs
    # placeholder line first, the real file system after it)
    auto = set(getattr(K, 'automount', None) or ())
    out = []
    for i, m in enumerate(K.mount_listing()):
        if all and m in auto and not any(p_.mountpoint == m for p_ in out):
            # (all=False lists physical devices only: autofs is a 'nodev' file system)
            out.append(P('systemd-1', m, 'autofs', 'rw,relatime,fd=41,pgrp=1,timeout=0,direct'))
        out.append(P('/dev/simpool' if m in pool else '/dev/sim%d' % i, m, 'btrfs' if m in pool else 'ext4', 'rw'))
    return out


def _mount_listing(self):
    """what the partition listing (psutil.disk_partitions) reports: the mount table in its own order, minus the mounts whose
    file-system type the listing filters out (ZFS datasets, overlay, sshfs, tmpfs ...: world['unlisted']) - os.path.ismount
    still recognises those"""
    order = getattr(self, 'mount_order', None)
    hidden = set(getattr(self, 'unlisted', None) or ())
    if order:
        lst = [m for m in order if m in self.mounts] + [m for m in self.mounts if m not in order]
    else:
        lst = list(self.mounts)
    return [m for m in lst if m not in hidden]


vkernel.Kernel.mount_listing = _mount_listing

_seams_installed = False


def install_seams():
    global _seams_installed
    if _seams_installed:
        return
    _seams_installed = True
    vkernel.install()
    K.op_hook = CLOCK.op
    put_clock.datetime = _DatetimeModuleShim
    empty_main.datetime = _DatetimeShim
    # ... and wherever else trashcli (now or after a change) holds the datetime module / class / date class
    for name, mod in list(sys.modules.items()):
        if mod is None or not (name == 'trashcli' or name.startswith('trashcli.')):
            continue
        for attr, val in list(vars(mod).items()):
            if val is _dt:
                setattr(mod, attr, _DatetimeModuleShim)
            elif val is _dt.datetime:
                setattr(mod, attr, _DatetimeShim)
            elif val is _dt.date:
                setattr(mod, attr, _DateShim)
    for fname, fn in (('time', w_time), ('time_ns', w_time_ns), ('localtime', w_localtime), ('gmtime', w_gmtime),
                      ('mktime', w_mktime), ('strftime', w_strftime), ('ctime', w_ctime), ('asctime', w_asctime)):
        setattr(_time, fname, fn)
    put_main.random = _RandomShim
    psutil.disk_partitions = _fake_disk_partitions
    # make sure no stray handler writes to the real stderr
    for h in lib_logger.my_logger.handlers:
        if isinstance(h, logging.StreamHandler):
            h.setStream(io.StringIO())
    logging.raiseExceptions = False


# ---- stdio -----------------------------------------------------------------

class InteractiveStdin(io.TextIOBase):
    """a user at a terminal: every line read is computed by ``fn`` from what
    the process has printed so far (fn returns None for end of input)"""

    def __init__(self, fn, stdio):
        self._fn = fn
        self._stdio = stdio
        self.replies = []

    def readable(self):
        return True

    def readline(self, size=-1):
        rep = self._fn(self._stdio.outb.getvalue().decode('utf-8', 'surrogateescape'))
        self.replies.append(rep)
        return '' if rep is None else rep

    def read(self, size=-1):
        return self.readline()


class Stdio(object):
    def __init__(self, stdin_bytes, stdin_fn=None):
        self.inb = io.BytesIO(stdin_bytes)
        self.outb = io.BytesIO()
        self.errb = io.BytesIO()
        if stdin_fn is not None:
            self.stdin = InteractiveStdin(stdin_fn, self)
        else:
            self.stdin = io.TextIOWrapper(self.inb, encoding='utf-8', errors='strict')
        self.stdout = io.TextIOWrapper(self.outb, encoding='utf-8', errors='strict',
                                       write_through=True)
        self.stderr = io.TextIOWrapper(self.errb, encoding='utf-8', errors='backslashreplace',
                                       write_through=True)

    def out(self):
        return self.outb.getvalue()

    def err(self):
        return self.errb.getvalue()


class Swap(object):
    """everything that has to be swapped in when a simulated process gets the
    cpu and swapped out when it loses it"""

    def __init__(self):
        self.saved = None

    def enter(self, p):
        self.saved = (sys.argv, sys.stdin, sys.stdout, sys.stderr, dict(os.environ), O.getcwd())
        try:
            O.chdir(K.r(p.cwd))       # first: the only step that can fail
        except OSError as e:
            self.saved = None
            raise HarnessError('cwd of the simulated process does not exist: %r (%s)' % (p.cwd, e))
        sys.argv = list(p.argv)
        sys.stdin, sys.stdout, sys.stderr = p.stdio.stdin, p.stdio.stdout, p.stdio.stderr
        os.environ.clear()
        os.environ.update(p.env)
        for h in lib_logger.my_logger.handlers:
            if isinstance(h, logging.StreamHandler):
                h.setStream(p.stdio.stderr)
        K.cur = p
        K.active = True

    def leave(self, p):
        K.active = False
        K.cur = None
        try:
            p.cwd = K.v(O.getcwd())
        except OSError:
            pass
        p.env = dict(os.environ)
        argv, sin, sout, serr, env, cwd = self.saved
        sys.argv = argv
        sys.stdin, sys.stdout, sys.stderr = sin, sout, serr
        os.environ.clear()
        os.environ.update(env)
        try:
            O.chdir(cwd)
        except OSError:
            O.chdir('/')


def make_proc(pid, spec, stdin_fn=None):
    p = Proc(pid, spec)
    p.argv = list(spec['argv'])
    p.env = dict(spec.get('env', {}))
    p.env.setdefault('COLUMNS', '80')
    p.stdio = Stdio(spec.get('stdin', '').encode('utf-8', 'surrogateescape'), stdin_fn)
    p.kill_at = spec.get('kill_at')
    p.kill_at_mut = spec.get('kill_at_mut')
    p.intr_at_mut = spec.get('intr_at_mut')
    p.thread = threading.current_thread()
    return p


def _body(p):
    """runs inside the swapped-in context; returns nothing, fills p.exit"""
    main = MAINS[os.path.basename(p.argv[0])]
    # a real command starts with an (almost) empty stack and the interpreter's default recursion limit; the simulator's
    # own frames below this point must not count against it, nor may the workers' raised limit hide a RecursionError
    depth, f = 0, sys._getframe()
    while f is not None:
        depth += 1
        f = f.f_back
    old_limit = sys.getrecursionlimit()
    sys.setrecursionlimit(depth + 1000)
    try:
        rc = main()
        p.exit = 0 if rc is None else rc
    except SystemExit as e:
        c = e.code
        p.exit = 0 if c is None else (c if isinstance(c, int) else 1)
    except SimKilled:
        p.exit = -9
    except KeyboardInterrupt:
        p.exit = 130
    except StepLimit:
        p.exit = -99
    except HarnessError:
        raise
    except BaseException as e:           # uncaught exception = traceback + exit 1
        p.exit = 1
        p.exc = e
        # extracted later, outside the simulation (linecache reads source files)
        p.exc_tb_raw = e.__traceback__
    finally:
        # (concurrent simulated processes may have read each other's lowered limit as 'old': never end below the harness's own)
        sys.setrecursionlimit(max(old_limit, 5000))
    if not isinstance(p.exit, int):
        p.exit = 1


def finish(p):
    """what the OS does when a process ends: close leftover descriptors"""
    for w in list(p.writers):
        if not w.closed:
            if p.killed or p.exit in (-9, -99):
                w._discard()
            else:
                # interpreter shutdown flushes open file objects
                try:
                    w._discard()
                except Exception:
                    pass
    # python file objects own their descriptor: close them through the object, so that
    # a later garbage collection cannot close a descriptor number that has been reused
    for rd in list(getattr(p, 'readers', [])):
        try:
            if not rd._f.closed:
                rd._f.close()
        except OSError:
            pass
        p.fds.pop(rd._fd, None)
    p.readers = []
    for fd in list(p.fds):
        try:
            O.close(fd)
        except OSError:
            pass
    p.fds.clear()
    raw = getattr(p, 'exc_tb_raw', None)
    if raw is not None:
        p.exc_tb = traceback.extract_tb(raw)
        p.exc_tb_raw = None
        p.exc.__traceback__ = None
    if p.exc is not None:
        # the traceback a real interpreter would print; formatted outside the
        # simulation so that linecache does not go through the seam
        tb = ''.join(traceback.format_list(p.exc_tb)) if p.exc_tb else ''
        msg = 'Traceback (most recent call last):\n%s%s: %s\n' % (
            tb, type(p.exc).__name__, p.exc)
        p.stdio.errb.write(msg.encode('utf-8', 'backslashreplace'))


def run_sequential(p):
    """run one simulated process to completion on the calling thread"""
    sw = Swap()
    sw.enter(p)
    old_umask = os.umask(K.umask)
    try:
        _body(p)
    finally:
        sw.leave(p)
        os.umask(old_umask)
        finish(p)
    return p


def exc_frame(p):
    """innermost trashcli frame of an uncaught exception: 'file:function'"""
    if not p.exc_tb:
        return None
    last = None
    for fr in p.exc_tb:
        if '/trashcli/' in fr.filename:
            last = '%s:%s' % (fr.filename.split('/trashcli/', 1)[1], fr.name)
    return last
