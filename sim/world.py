"""World construction (explicit build steps, executed with the original os
functions - not through the seam) and snapshots of the whole sandbox."""
from __future__ import annotations

import hashlib
import os
import posixpath
import shutil
import stat as statmod

from .vkernel import K, O

BASE_MTIME = 1_600_000_000  # all build steps get explicit, deterministic mtimes


def enc(s):
    return s.encode('utf-8', 'surrogateescape') if isinstance(s, str) else s


class Sandbox(object):
    """a private directory on tmpfs; ``root`` is the virtual '/'"""

    def __init__(self, tag='w'):
        base = '/dev/shm' if os.path.isdir('/dev/shm') and os.access('/dev/shm', os.W_OK) \
            else os.environ.get('TMPDIR', '/tmp')
        self.base = os.path.join(base, 'tcsim.%d.%s' % (os.getpid(), tag))
        if os.path.lexists(self.base):
            shutil.rmtree(self.base)
        O.mkdir(self.base, 0o755)
        self.n = 0
        self.root = None

    def fresh(self):
        """a new empty virtual root (the previous one is removed)"""
        self.drop()
        self.n += 1
        self.root = os.path.join(self.base, 'r%d' % self.n)
        O.mkdir(self.root, 0o755)
        return self.root

    def drop(self):
        if self.root and os.path.lexists(self.root):
            _rmtree(self.root)
        self.root = None

    def close(self):
        self.drop()
        if os.path.lexists(self.base):
            _rmtree(self.base)


def _rmtree(path):
    # entries may have odd modes; we are root in the sandbox, but be robust
    def onexc(fn, p, exc):
        try:
            O.chmod(os.path.dirname(p), 0o700)
            O.chmod(p, 0o700)
        except OSError:
            pass
        try:
            fn(p)
        except OSError:
            pass
    shutil.rmtree(path, onexc=onexc)


def build(root, world):
    """execute the world's build steps below ``root``"""
    old = os.umask(0)
    try:
        n = 0
        dirs_mtime = []
        for st in world['steps']:
            kind, path = st[0], st[1]
            rp = root + path
            par = os.path.dirname(rp)
            if kind != 'rm' and not os.path.isdir(par):
                os.makedirs(par, 0o755)
            n += 1
            if kind == 'd':
                mode = st[2] if len(st) > 2 and st[2] is not None else 0o755
                if os.path.isdir(rp):
                    if not os.path.islink(rp):
                        O.chmod(rp, mode)
                else:
                    O.mkdir(rp, mode)
                    O.chmod(rp, mode)
            elif kind == 'f':
                content = enc(st[2]) if len(st) > 2 and st[2] is not None else b''
                mode = st[3] if len(st) > 3 and st[3] is not None else 0o644
                mt = st[4] if len(st) > 4 and st[4] is not None else BASE_MTIME + n
                fd = O.open(rp, os.O_WRONLY | os.O_CREAT | os.O_TRUNC, 0o600)
                try:
                    if content:
                        O.write(fd, content)
                finally:
                    O.close(fd)
                O.chmod(rp, mode)
                O.utime(rp, ns=(mt * 10**9, mt * 10**9))
            elif kind == 'rm':
                if os.path.lexists(rp):
                    if os.path.isdir(rp) and not os.path.islink(rp):
                        _rmtree(rp)
                    else:
                        O.unlink(rp)
            elif kind == 'l':
                target = st[2]
                rt = (root + target) if target.startswith('/') else target
                O.symlink(rt, rp)
            elif kind == 'h':
                # a hard link: another name of the file st[2] (same file system)
                os.link(root + st[2], rp)
            elif kind == 'own':
                # numeric owner / group that have no passwd / group entry (a disk from another machine, an unpacked tarball)
                os.lchown(rp, st[2], st[3])
            else:
                raise ValueError('unknown build step %r' % (st,))
    finally:
        os.umask(old)


# --------------------------------------------------------------------------
# snapshots
# --------------------------------------------------------------------------

def snap(root):
    """virtual path -> tuple
         ('d', mode)
         ('f', mode, size, sha256-hex16, mtime_ns)
         ('l', virtual target)
         ('o', mode)        anything else
    """
    out = {}
    stack = ['']
    rl = len(root)
    while stack:
        d = stack.pop()
        try:
            it = O.scandir(root + d if d else root)
        except OSError:
            continue
        with it:
            for e in it:
                vp = d + '/' + e.name
                try:
                    st = e.stat(follow_symlinks=False)
                except OSError:
                    continue
                m = st.st_mode
                if statmod.S_ISDIR(m):
                    out[vp] = ('d', statmod.S_IMODE(m))
                    stack.append(vp)
                elif statmod.S_ISLNK(m):
                    t = O.readlink(root + vp)
                    if t == root:
                        t = '/'
                    elif t.startswith(root + '/'):
                        t = t[rl:]
                    out[vp] = ('l', t)
                elif statmod.S_ISREG(m):
                    if st.st_size:
                        with O.builtin_open(root + vp, 'rb') as f:
                            h = hashlib.sha256(f.read()).hexdigest()[:16]
                    else:
                        h = 'empty'
                    out[vp] = ('f', statmod.S_IMODE(m), st.st_size, h, st.st_mtime_ns)
                else:
                    out[vp] = ('o', statmod.S_IMODE(m))
    return out


def subtree(s, path):
    """entries of snapshot ``s`` at ``path`` and below, keyed by the path
    relative to ``path`` ('' for the entry itself)"""
    out = {}
    if path in s:
        out[''] = s[path]
    pre = path + '/'
    for k, v in s.items():
        if k.startswith(pre):
            out[k[len(path):]] = v
    return out


def same_entry(a, b, mtimes=True):
    """entry tuples equal, as far as an entry can be preserved by a move"""
    if a is None or b is None:
        return a is b
    if a[0] != b[0]:
        return False
    if a[0] == 'f':
        return a[1:4] == b[1:4] and (not mtimes or a[4] == b[4])
    return a == b


def same_tree(ta, tb, mtimes=True):
    if set(ta) != set(tb):
        return False
    return all(same_entry(ta[k], tb[k], mtimes) for k in ta)


def tree_digest(t):
    m = hashlib.sha256()
    for k in sorted(t):
        m.update(repr((k, t[k])).encode('utf-8', 'backslashreplace'))
    return m.hexdigest()[:16]


def diff(a, b):
    """(removed, added, changed) path lists between two snapshots"""
    removed = sorted(k for k in a if k not in b)
    added = sorted(k for k in b if k not in a)
    changed = sorted(k for k in a if k in b and not same_entry(a[k], b[k]))
    return removed, added, changed


def read_bytes(root, vpath):
    with O.builtin_open(root + vpath, 'rb') as f:
        return f.read()
