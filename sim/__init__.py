"""Deterministic simulation of trash-cli processes on a virtual POSIX world.

See /verif/DESIGN.md section 2.  Nothing in this package imports anything
from /verif/model (the oracles' reference model) and vice versa.
"""
