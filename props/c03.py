"""C03 - every .trashinfo is spec-conformant and decodes back to the exact
path and time.  The core is a codec law over names (plain seeded generation);
the simulator contributes the time of trashing (simulated clock incl. jumps
and extreme years), the trash-dir kind (absolute vs $topdir-relative Path),
and the real write/read path through the file system and the locale codec."""
from __future__ import annotations

import copy
import datetime as _dt
import posixpath

from gen import base as G
from gen import trashgen as TG
from model import layout as ML
from model import trashinfo as TI
from oracles import put as OP
from oracles import readers as OR
from sim import world as Wd

ID = 'C03'
LEVEL = 'exploration'
ENGINE = 'history'
BUDGET = {'quick': 6000, 'thorough': 250000}
WALL = {'quick': 45, 'thorough': 1500}
RULE = ('one trash-put of 1-3 entries per case with names over all byte values 1-255 except / (incl. newline, CR, %, =, [, space, +, #, ?, '
        'multi-byte and invalid UTF-8), depth 1-6, up to 255 bytes, at a simulated time from year 1 to 9999 with sub-second position, into home / '
        '.Trash/$uid / .Trash-$uid trash dirs; every written .trashinfo is checked byte-wise against the spec and read back through trash-list, '
        'trash-restore (listing) and trash-rm (exact-path pattern on a rebuilt world); non-trivial = the name needs escaping; distinct = '
        '(set of special byte classes in the name, trash-dir kind, year class)')
ASSUMPTIONS = ['names that are not valid UTF-8 are generated, but trash-put refuses them (see C16), so no .trashinfo exists to judge for them',
               'the name dimension is ordinary seeded input generation; the simulator adds clock, layout and real I/O']
PROBES = ['symlink-appears-at-the-original-location-afterwards', 'path-value-over-8k', 'infos-checked', 'relative-path-info', 'absolute-path-info', 'name-needs-escaping', 'newline-in-name', 'percent-in-name',
          'long-name', 'deep-path', 'year-below-1000', 'year-above-3000', 'invalid-utf8-refused', 'rm-exact-path-removed', 'restore-listed',
          'first-candidate-fails', 'trashed-in-a-later-candidate-after-a-fault', 'per-argument-time-window-checked']
TECHNIQUE = 'deterministic simulation with simulated clock; byte-level conformance + round trip of each written .trashinfo through an independent spec decoder and the three readers'
LEVEL_TEXT = 'seeded exploration of names x depth x time x trash-dir kind; invariant on every .trashinfo written by the real trash-put'
LEVEL_NOTE = 'trusted: model/trashinfo.py (RFC 2396 character set, percent decoder, date grammar)'


def byte_classes(name):
    b = name.encode('utf-8', 'surrogateescape')
    cl = set()
    for c in b:
        if c in b'\n':
            cl.add('nl')
        elif c in b'\r':
            cl.add('cr')
        elif c == 0x25:
            cl.add('pct')
        elif c in b'+':
            cl.add('plus')
        elif c in b' ':
            cl.add('sp')
        elif c in b'=[]#?&;':
            cl.add('punct')
        elif c < 0x20 or c == 0x7f:
            cl.add('ctl')
        elif c >= 0x80:
            cl.add('hi')
    try:
        b.decode('utf-8')
    except UnicodeDecodeError:
        cl.add('badutf8')
    return tuple(sorted(cl))


def gen(rng):
    ts = [rng.choice(['absent', 'sticky']) for _ in range(4)]
    L = G.make_layout(rng, trash_states=ts, alt_states=['absent'] * 4, xdg=rng.choice(['unset', 'set']),
                      uid=rng.choice([1000, 0, 4294967294]))
    steps = L['steps']
    home, uid, env = L['home'], L['uid'], dict(L['env'])
    args = []
    made_dirs = set()
    for _i in range(rng.choice([1, 1, 2, 3])):
        vol = rng.choice(['/'] + L['vols'])
        d = L['work'][vol]
        if vol != '/' and rng.random() < 0.6:
            # start right below $topdir, with first path components of every flavour
            # (the relative Path value then begins with them)
            first = rng.choice(['Photos', 'archive', 'tmp', 'home', 'Path=x', '=eq', 'th', 'a', 'P', '%41', ' lead', '[Trash Info]',
                                'DeletionDate=1', '..x', '-dash', 'é', '~', 't'])
            d = vol + '/' + first if rng.random() < 0.8 else vol
        if rng.random() < 0.06:
            # a deep path made of bytes that all need escaping: the Path value grows past 8 KiB
            # while the path itself stays below PATH_MAX
            for _k in range(rng.randint(9, 11)):
                d = d + '/' + rng.choice(['é', 'ж', 'ü']) * 120 + str(_k)
        for _k in range(rng.choice([0, 0, 1, 2, 5])):
            comp = G.rand_name_bytes(rng, 30, allow_invalid=False) if rng.random() < 0.5 else rng.choice(['sub', 'a b', 'x%y', 'ü'])
            d = d + '/' + comp
        nm = G.rand_name_bytes(rng, 255 if rng.random() < 0.2 else 24, allow_invalid=rng.random() < 0.1) \
            if rng.random() < 0.7 else rng.choice(G.TROUBLE)
        if len((d + '/' + nm).encode('utf-8', 'surrogateescape')) > 3900:
            continue
        p = d + '/' + nm
        if any(p == a or p.startswith(a + '/') or a.startswith(p + '/') for a in args):
            continue
        # neither the entry nor its directories may coincide with a directory / an entry made for an earlier argument
        if p in made_dirs or any(d == a or d.startswith(a + '/') for a in args) or any(s_[1] == p for s_ in steps):
            continue
        if d != vol:
            steps.append(['d', d, 0o755])
        x = d
        while x not in ('/', ''):
            made_dirs.add(x)
            x = posixpath.dirname(x)
        G.make_entry(rng, p, rng.choice(['file', 'emptydir', 'link_dangling']), steps, home + '/aux')
        args.append(p)
        if vol == '/' and rng.random() < 0.1 and len(nm.encode('utf-8', 'surrogateescape')) < 200:
            # the home trash still holds a .trashinfo WITHOUT payload for this very location, under the plain name (an earlier put was
            # interrupted, or the payload was taken out by hand): the entry trashed now gets a record of its own, with its own time
            ht_ = G.home_trash_of(env)
            steps.append(['f', ht_ + '/info/' + nm + '.trashinfo', G.fmt_info(TG.pct(p), '2001-02-03T04:05:06'), 0o600])
            steps.append(['d', ht_ + '/files', 0o700])
    if not args:
        steps.append(['f', home + '/w/plain', 'x', 0o644])
        args = [home + '/w/plain']
    yr = rng.choice([2024, 2024, 2024, 1999, 2038, 1, 2, 99, 100, 999, 1000, 1969, 1970, 9999, 9998, 2100, 1582])
    start = '%04d-%02d-%02dT%02d:%02d:%02d.%06d' % (yr, rng.randint(1, 12), rng.randint(1, 28), rng.randint(0, 23),
                                                     rng.randint(0, 59), rng.randint(0, 59), rng.choice([0, 1, 999999, rng.randrange(10**6)]))
    faults = []
    opts = []
    fr = rng.random()
    if fr < 0.12:
        # the first candidate trash directory fails while the .trashinfo is written or the file is moved in, so the entry
        # goes to the NEXT candidate, which writes the other kind of Path (relative <-> absolute): the info must be right for
        # the directory it ends up in
        import errno as E
        err = rng.choice([E.ENOSPC, E.EDQUOT, E.EIO, E.EACCES])
        op = rng.choice(['open_w', 'open_w', 'rename', 'write'])
        if fr < 0.07 and L['vols']:
            for v in L['vols']:
                for t in (v + '/.Trash-%d' % uid, v + '/.Trash/%d' % uid):
                    faults.append({'kind': 'cond', 'what': 'op_errno', 'op': op, 'dir': t, 'errno': err})
            opts = ['--home-fallback']
            env['TRASH_ENABLE_HOME_FALLBACK'] = '1'
        else:
            faults.append({'kind': 'cond', 'what': 'op_errno', 'op': op, 'dir': G.home_trash_of(env), 'errno': err})
    return {
        'faults': faults,
        'relink': rng.random() < 0.1,
        'world': {'mounts': L['mounts'], 'steps': steps},
        'procs': [{'argv': ['trash-put'] + opts + ['--'] + args, 'env': env, 'cwd': rng.choice(['/', home]), 'uid': uid}],
        'dirsalt': rng.randrange(1 << 30),
        'clock': {'start': start, 'tick_us': rng.choice([137, 400000, 0]),
                  # every system call takes simulated time: the arguments of one command are trashed at different moments
                  'op_us': rng.choice([0, 0, 1000, 300000, 2000000, 120 * 10**6]), 'utcoffset_s': rng.choice([0, 3600, -18000, 19800, 34200, 50400, -43200]),
                  # does the zone have DST rules (time.daylight) and is DST in effect now (tm_isdst)? utcoffset_s is the offset in effect
                  'dst': rng.choice([None, None, {'has': True, 'on': True}, {'has': True, 'on': False}])},
    }


def glob_literal(s):
    out = ''
    for c in s:
        out += '[%s]' % c if c in '*?[' else c
    return out


def check(sim, case, st):
    sim.setup(case)
    spec = case['procs'][0]
    from props.c01 import parse_args
    files = parse_args(spec['argv'])
    env, uid = spec.get('env', {}), spec.get('uid', 1000)
    mounts = OR.mounts_of(case)
    snap0 = sim.snap()
    named = [OP.name_entry(sim.root, spec.get('cwd', '/'), a, snap0, mounts) for a in files]
    if OP.related(named):
        return []
    r = sim.run(spec)
    st.sims += 1
    st.ops += r.nops
    snap1 = sim.snap()
    outs, _p = OP.judge(sim.root, snap0, snap1, named, mounts)
    res = []
    trashed = [o for o in outs if o.state == 'trashed' or
               (o.state == 'half' and o.why in ('payload-info-without-date', 'payload-info-without-path', 'payload-info-names-other-path'))]
    for o in outs:
        if o.named.kind == 'entry' and 'badutf8' in byte_classes(o.named.loc) and o.state == 'untouched':
            st.probes['invalid-utf8-refused'] += 1
    if case.get('faults'):
        st.probes['first-candidate-fails'] += 1
    if not trashed:
        st.probes['premise-not-met:nothing-trashed'] += 1
        return []
    if case.get('faults') and any(str(ev[6]).startswith('FAULT:') for ev in r.trace):
        st.probes['trashed-in-a-later-candidate-after-a-fault'] += 1
    lo = min(r.clock).replace(microsecond=0) if r.clock else None
    hi = max(r.clock).replace(microsecond=0) if r.clock else None
    # per-argument windows of simulated time: the clock advances by op_us with every system call and by tick_us with every
    # reading, so the moment of each op of the run is known; an argument is trashed between the end of the previous one
    # (its rename into files/) and its own rename
    ck = case.get('clock', {})
    op_us, tick_us = ck.get('op_us', 0) or 0, ck.get('tick_us', 137)
    t_start = None
    windows = {}
    if r.clock_seq and len(r.trace) > 0:
        import datetime as _dt2
        g0 = r.trace[0][0]
        first_g, first_v = r.clock_seq[0]
        reads_before_first = 0
        ops_before_first = sum(1 for ev in r.trace if ev[0] <= first_g)
        try:
            t_start = first_v - _dt2.timedelta(microseconds=op_us * ops_before_first)

            def t_at(idx):
                g = r.trace[idx][0]
                nread = sum(1 for (rg, _v) in r.clock_seq if rg < g)
                return t_start + _dt2.timedelta(microseconds=op_us * (idx + 1) + tick_us * nread)
            prev_end = 0
            for i, ev in enumerate(r.trace):
                if ev[2] == 'rename' and ev[6] is None and isinstance(ev[4], str) and '/files/' in ev[4]:
                    windows.setdefault(posixpath.basename(ev[4]), []).append((t_at(prev_end).replace(microsecond=0) - _dt2.timedelta(seconds=1),
                                      t_at(i).replace(microsecond=0) + _dt2.timedelta(seconds=1)))
                    prev_end = i
        except OverflowError:
            windows = {}
    # (after the command, something else takes the place of what was trashed: a dangling symlink appears at the original location
    # of some entries.  What a .trashinfo says does not depend on what the file system looks like when it is read)
    if case.get('relink'):
        from sim.vkernel import O as _O
        done_ = 0
        now_ = sim.snap()
        for o_ in trashed:
            l_ = o_.named.loc
            if l_ and l_ not in now_ and ML.resolve(now_, posixpath.dirname(l_)) == posixpath.dirname(l_) and done_ < 2:
                _O.symlink('relinked-elsewhere-%d' % done_, sim.root + l_)
                done_ += 1
        if done_:
            st.probes['symlink-appears-at-the-original-location-afterwards'] += 1
    rl = OR.run_list(sim, env, uid)
    st.sims += 1
    rr = sim.run({'argv': ['trash-restore', '/'], 'env': env, 'cwd': '/', 'uid': uid, 'stdin': '\n'})
    st.sims += 1
    items = OR.parse_restore_items(rr.outs) if rr.exc is None else None
    for o in trashed:
        loc = o.named.loc
        T, N = o.tdir, o.name
        content = Wd.read_bytes(sim.root, T + '/info/' + N + '.trashinfo')
        top = ML.topdir_of(T, mounts, uid)
        rel = top is not None
        cls = byte_classes(posixpath.basename(loc))
        ycls = 'y<1000' if lo and lo.year < 1000 else ('y>3000' if lo and lo.year > 3000 else 'y')
        st.probes['infos-checked'] += 1
        if len(content) > 8192:
            st.probes['path-value-over-8k'] += 1
        st.probes['relative-path-info' if rel else 'absolute-path-info'] += 1
        if cls:
            st.probes['name-needs-escaping'] += 1
            st.distinct.add((cls, 'rel' if rel else 'abs', ycls))
        if 'nl' in cls:
            st.probes['newline-in-name'] += 1
        if 'pct' in cls:
            st.probes['percent-in-name'] += 1
        if len(posixpath.basename(loc).encode('utf-8', 'surrogateescape')) > 200:
            st.probes['long-name'] += 1
        if loc.count('/') > 6:
            st.probes['deep-path'] += 1
        if ycls == 'y<1000':
            st.probes['year-below-1000'] += 1
        if ycls == 'y>3000':
            st.probes['year-above-3000'] += 1
        sigtail = '%s/%s' % ('rel' if rel else 'abs', ycls)

        def bad(clause, msg):
            res.append(('C03/%s/%s' % (clause, sigtail), '%s\ninfo bytes: %r\nlocation: %r' % (msg, content, loc)))
        probs = TI.conformance_problems(content, rel)
        for pb in probs:
            key = pb.split(' ')[0:3]
            bad('nonconformant:' + '-'.join(key), pb)
        inf = TI.Info(content)
        if inf.path is not None:
            want = ML.fsb(loc if not rel else loc[len(top.rstrip('/')) + 1:])
            if inf.path != want:
                bad('path-decodes-differently', 'spec decoder gives %r, expected %r' % (inf.path, want))
        if inf.date is None:
            bad('date-unparseable', 'DeletionDate value %r is not YYYY-MM-DDThh:mm:ss' % (inf.date_value,))
        elif lo is not None and not (lo <= inf.date <= hi):
            bad('date-outside-window', 'DeletionDate %s not within the simulated time of the command [%s, %s]' % (inf.date, lo, hi))
        else:
            ws = windows.get(N) or []
            w = ws[0] if len(ws) == 1 else None       # (the same trash name in two trash dirs: not attributable)
            if w is not None and op_us:
                st.probes['per-argument-time-window-checked'] += 1
                if not (w[0] <= inf.date <= w[1]):
                    bad('date-not-the-time-of-trashing', 'DeletionDate %s, but this argument was trashed between %s and %s (simulated time; '
                        'every system call takes %d us)' % (inf.date, w[0], w[1], op_us))
        # read back through the readers
        if inf.date is not None:
            line = '%s %s' % (inf.date.isoformat(' '), loc)
            if rl.exc is not None:
                bad('list-traceback:%s' % rl.exc_frame, 'trash-list raised %s' % rl.exc)
            elif not _contains_record(rl.outs, line):
                bad('list-readback', 'trash-list does not print %r; stdout %r' % (line, rl.outs[:500]))
            if rr.exc is not None:
                bad('restore-traceback:%s' % rr.exc_frame, 'trash-restore raised %s' % rr.exc)
            elif items is not None:
                if any(p == loc and d == str(inf.date) for _i, d, p in items):
                    st.probes['restore-listed'] += 1
                else:
                    bad('restore-readback', 'trash-restore / does not list (%s, %r); listing %r' % (inf.date, loc, items[:5]))
    # trash-rm with the exact path as (escaped) pattern, on a rebuilt world
    o = trashed[0]
    loc = o.named.loc
    sim.setup(case)
    sim.run(spec)
    st.sims += 1
    before = sim.snap()
    rm = sim.run({'argv': ['trash-rm', glob_literal(loc)], 'env': env, 'cwd': '/', 'uid': uid})
    st.sims += 1
    after = sim.snap()
    gone = (o.tdir + '/files/' + o.name) not in after and (o.tdir + '/info/' + o.name + '.trashinfo') not in after
    others_intact = all((x.tdir + '/info/' + x.name + '.trashinfo') in after for x in trashed[1:] if x.named.loc != loc)
    top = ML.topdir_of(o.tdir, mounts, uid)
    sigtail = '%s/-' % ('rel' if top is not None else 'abs')
    if rm.exc is not None:
        res.append(('C03/rm-traceback:%s/%s' % (rm.exc_frame, sigtail), 'trash-rm %r raised %s' % (glob_literal(loc), rm.exc)))
    elif not gone:
        res.append(('C03/rm-readback/%s' % sigtail, 'trash-rm with the exact original path %r as pattern did not remove the entry (stderr %r)' % (loc, rm.errs[-300:])))
    elif not others_intact:
        res.append(('C03/rm-readback-removed-others/%s' % sigtail, 'trash-rm %r removed other entries too' % (loc,)))
    else:
        st.probes['rm-exact-path-removed'] += 1
    seen, out = set(), []
    for s, m in res:
        if s not in seen:
            seen.add(s)
            out.append((s, m))
    return out


def _contains_record(stdout_text, line):
    return ('\n' + stdout_text).find('\n' + line + '\n') >= 0
