"""C16 - trash-put's exit status tells the truth and arguments are handled
independently.  Engines H + F + D: argument lists with failing members
(missing, dot entries, invalid UTF-8, entries made to fail by an injected
condition); every argument is also run alone on an identically rebuilt world
under the same faults and clock, and its outcome compared."""
from __future__ import annotations

import copy
import posixpath

from gen import base as G
from gen import trashgen as TG
from model import layout as ML
from oracles import put as OP
from oracles import readers as OR
from sim import world as Wd

ID = 'C16'
LEVEL = 'exploration'
ENGINE = 'fault'
BUDGET = {'quick': 4000, 'thorough': 100000}
WALL = {'quick': 45, 'thorough': 1500}
RULE = ('argument lists of 1-6 in seeded order mixing trashable entries, missing paths, dot entries, names that are not valid UTF-8 and entries '
        'whose trashing is made to fail by an injected persistent condition (entry immutable: EPERM on rename; directory not writable: EACCES; a hard error - ENOSPC, EDQUOT, EROFS, EIO, EACCES - at the open, write or close of that argument\'s .trashinfo in whatever trash directory is tried), '
        'none related to another (duplicates in a separate generator), with -f / -i (reply per prompt) / -v; k+1 simulated runs per list '
        '(the list, then each argument alone under the same faults and clock); non-trivial = the list mixes at least one failing and one '
        'trashable argument; distinct = (sorted multiset of argument classes, options, position of the first failing argument)')
ASSUMPTIONS = ['independence is claimed for arguments none of which is an ancestor, alias, link target or duplicate of another']
PROBES = ['typed-ahead-replies-with-and-without-the-refused-arguments', 'arg-empty-string', 'lists', 'solo-runs', 'mixed-lists', 'arg-trashed', 'arg-missing', 'arg-dot', 'arg-invalid-utf8', 'arg-fault-immutable',
          'arg-fault-dir', 'arg-fault-info-creation', 'arg-declined', 'arg-missing-forced', 'duplicates-lists', 'exit0', 'exit-nonzero']
TECHNIQUE = 'deterministic simulation with injected persistent conditions; differential: each argument alone vs inside the list on identically rebuilt worlds'
LEVEL_TEXT = 'seeded exploration of argument lists x orders x options x injected failures; exit status, per-argument diagnostics and independence (by differential)'
LEVEL_NOTE = 'trusted: C01 frame oracle, fault condition matcher, world rebuild determinism'


def gen(rng):
    L = G.make_layout(rng, nvol=rng.choice([0, 1, 2]), trash_states=[rng.choice(['absent', 'sticky'])] * 3,
                      alt_states=[rng.choice(['absent', 'dir'])] * 3, xdg='unset', nested=False,
                      homename=rng.choice(G.ODD_HOMES) if rng.random() < 0.12 else 'u')
    steps = L['steps']
    home, uid, env = L['home'], L['uid'], dict(L['env'])
    n = rng.choice([1, 2, 3, 3, 4, 5, 6])
    args = []
    faults = []
    used = set()
    dup = rng.random() < 0.12
    deeptrash = rng.random() < 0.02
    samebase = rng.choice(['twin', 'twin.txt', 'report 50%', 'twin.tar.gz']) if (rng.random() < 0.15 and not deeptrash) else None
    if deeptrash:
        # the home trash lies ~3800 bytes deep (XDG_DATA_HOME on a deeply nested path): info/ can still be created, but
        # info/<a long name>.trashinfo is longer than PATH_MAX whatever is cut off the NAME to make room for the suffix
        env['XDG_DATA_HOME'] = home + '/' + '/'.join('x' * 250 + str(k_) for k_ in range(15)) + '/' + 'y' * 150
    for i in range(n):
        vol = rng.choice(['/'] + L['vols'])
        if deeptrash and i == 0:
            vol = '/'
        wd = L['work'][vol]
        aux = home + '/aux' if vol == '/' else vol + '/aux'
        cls = rng.choice(['ok', 'ok', 'ok', 'missing', 'dot', 'badutf8', 'immutable', 'rodir', 'emptystr', 'infofail'])
        if deeptrash and i == 0:
            cls = 'ok'
        # a '%' or braces in the name must not matter to whatever builds the diagnostics
        sfx = rng.choice(['', '', '', ' 50%', '%s', '%d', '{0}', '%(x)s'])
        nm = 'a%d' % i + sfx
        sub = ''
        if samebase:
            # every argument has the SAME base name, each in a directory of its own (report.txt from three project directories):
            # in the trash they become twin, twin_1, twin_2 ... - what happens to one must not touch the record of another
            nm = samebase
            sub = '/s%d' % i
        if cls == 'ok':
            if rng.random() < 0.12 or (deeptrash and i == 0):
                # 246-255 bytes of multi-byte characters: '<name>.trashinfo' is too long for the kernel, the name gets shortened
                nm = rng.choice(['я' * 122, '日' * 83, 'é' * 121, '😀' * 61]) + 'x' * rng.randint(0, 4) + str(i)
            p = wd + sub + '/' + nm
            G.make_entry(rng, p, rng.choice(['file', 'dir', 'link_dangling', 'empty', 'link_file', 'link_dir']), steps, aux)
        elif cls == 'emptystr':
            p = ''
            if '' in args:
                p = wd + '/missing%d' % i
        elif cls == 'missing':
            p = wd + '/missing%d' % i + sfx
        elif cls == 'dot':
            d = wd + '/dotdir%d' % i
            steps.append(['d', d, 0o755])
            p = d + '/' + rng.choice(['.', '..', './', '../'])
        elif cls == 'badutf8':
            p = wd + '/bad%d\udcff' % i + sfx
            G.make_entry(rng, p, rng.choice(['file', 'emptydir']), steps, aux)
        elif cls == 'infofail':
            # a hard error while this argument's .trashinfo is created (whatever trash directory is tried)
            import errno as E
            p = wd + '/nf%d' % i
            G.make_entry(rng, p, rng.choice(['file', 'dir']), steps, aux)
            faults.append({'kind': 'cond', 'what': 'name_errno', 'ops': rng.choice([['open_w'], ['open_w'], ['write', 'fwrite'], ['close']]) ,
                           'basename': 'nf%d.trashinfo' % i, 'prefix': 'nf%d' % i, 'suffix': '.trashinfo', 'errno': rng.choice([E.ENOSPC, E.EDQUOT, E.EROFS, E.EIO, E.EACCES])})
        elif cls == 'immutable':
            p = (wd + '/imm%d' % i + sfx) if not samebase else (wd + sub + '/' + nm)
            G.make_entry(rng, p, rng.choice(['file', 'dir']), steps, aux)
            faults.append({'kind': 'cond', 'what': 'immutable', 'entry': p})
        else:
            d = wd + '/rodir%d' % i + sfx
            steps.append(['d', d, 0o555])
            p = d + '/' + ('inside' if not samebase else nm)
            G.make_entry(rng, p, 'file', steps, aux)
            faults.append({'kind': 'cond', 'what': 'dir_not_writable', 'dir': d})
        if cls in ('immutable', 'rodir', 'infofail', 'ok') and p and rng.random() < 0.25:
            # owned by numeric ids without passwd / group entry: whatever describes the entry in a message must cope
            steps.append(['own', p, rng.choice([54321, 0]), rng.choice([54321, 54322])])
            if rng.random() < 0.5:
                steps.append(['own', posixpath.dirname(p), 54321, 54321])
        args.append(p)
    if dup and args:
        args.insert(rng.randint(0, len(args)), rng.choice(args))
    if rng.random() < 0.02 and not deeptrash:
        # the home trash already holds a name 100 times (name, name_1 ... name_99): the next entry of that name gets a random
        # suffix - one of the arguments has that name
        ht_ = G.home_trash_of(env)
        for j in range(100):
            tn = 'often' if j == 0 else 'often_%d' % j
            G.add_trashed(steps, ht_, tn, TG.pct(home + '/old/often'), '2019-01-01T00:00:00', 'none', tag='c%d' % j)
            steps.append(['f', ht_ + '/files/' + tn, 'c%d' % j, 0o644])
        steps.append(['f', home + '/w/often', 'the 101st', 0o644])
        args.insert(rng.randint(0, len(args)), home + '/w/often')
    cwd = rng.choice(['/', home])
    if rng.random() < 0.05:
        # an entry whose name begins with a dash, named as it is after '--' (trash-put -- *, a leftover file called -rf): after
        # '--' everything is an operand
        dn_ = rng.choice(['-f', '-rf', '-i', '-v', '--force', '-foo', '--trash-dir'])
        cwd = home
        if not any(s_[1] == home + '/' + dn_ for s_ in steps):
            G.make_entry(rng, home + '/' + dn_, rng.choice(['file', 'dir', 'empty']), steps, home + '/aux')
            args.insert(rng.randint(0, len(args)), dn_)
    opts = []
    stdin = ''
    if L['vols'] and rng.random() < 0.1 and not deeptrash:
        # the trash directories of the volumes cannot be used and the home fallback is enabled (twice): arguments on those volumes
        # travel to the home trash by copy + delete - a symlink argument as the link it is
        for v_ in L['vols']:
            for t_ in (v_ + '/.Trash', v_ + '/.Trash-%d' % uid):
                steps.append(['rm', t_])
                steps.append(['f', t_, 'not a directory', 0o600])
        opts.append('--home-fallback')
        env['TRASH_ENABLE_HOME_FALLBACK'] = '1'
    if rng.random() < 0.25:
        opts.append('-f')
    elif rng.random() < 0.25:
        opts.append('-i')
        stdin = '\n'.join(rng.choice(['y', 'n', 'Y', '', 'no', 'yes']) for _ in range(len(args) + 1))
        if rng.random() < 0.12:
            # the input ends (Ctrl-D, a pipe that dries up) before every question is answered: no answer is no consent
            k_ = rng.randint(0, max(0, len(args) - 1))
            stdin = ''.join(rng.choice(['y', 'n', 'Y', 'yes']) + '\n' for _ in range(k_)) + rng.choice(['', '', 'y', 'n'])
    if rng.random() < 0.3:
        opts.append(rng.choice(['-v', '-vv']))
    if rng.random() < 0.05 and not deeptrash and '--home-fallback' not in opts:
        # a trash directory named relative to the current directory (cd ~/project && trash-put -v --trash-dir .trash ...)
        opts += ['--trash-dir', rng.choice(['T-rel', './T-rel', '.trash'])] + ([rng.choice(['-v', '-vv'])] if rng.random() < 0.6 else [])
    return {
        'world': {'mounts': L['mounts'], 'steps': steps},
        'procs': [{'argv': ['trash-put'] + opts + ['--'] + args, 'env': env, 'cwd': cwd, 'uid': uid, 'stdin': stdin}],
        'faults': faults,
        'dirsalt': rng.randrange(1 << 30),
    }


def classify(nm, arg):
    if nm.kind == 'missing':
        return 'missing'
    if nm.kind == 'dot':
        return 'dot'
    try:
        arg.encode('utf-8')
    except UnicodeEncodeError:
        return 'badutf8'
    return 'entry'


def reply_map(case, files):
    """reply of the user per argument (position in the original list)"""
    reps = case['procs'][0].get('stdin', '').split('\n')
    return dict((a, reps[i] if i < len(reps) else None) for i, a in enumerate(files))


def run_one(sim, case, argv_files, rmap, st, mounts):
    c = copy.deepcopy(case)
    spec = c['procs'][0]
    base = []
    for a in spec['argv']:
        base.append(a)
        if a == '--':
            break
    spec['argv'] = base + argv_files
    spec['stdin'] = ''
    sim.setup(c)
    before = sim.snap()
    named = [OP.name_entry(sim.root, spec.get('cwd', '/'), a, before, mounts) for a in argv_files]
    prompted = []

    def user(out):
        # the prompt ends with  '<path>'?   - answer with the reply planned for that argument
        for a in sorted(argv_files, key=len, reverse=True):
            if out.endswith("'%s'? " % a) or out.endswith("'%s'? " % a.encode('utf-8', 'backslashreplace').decode('utf-8')):
                prompted.append(a)
                rep = rmap.get(a)
                return None if rep is None else rep + '\n'
        prompted.append(None)
        return None
    r = sim.run(spec, stdin_fn=user)
    r.prompted = prompted
    st.sims += 1
    st.ops += r.nops
    after = sim.snap()
    return before, named, r, after


def check(sim, case, st):
    spec = case['procs'][0]
    argv = spec['argv']
    if '--' not in argv:
        return []
    files = argv[argv.index('--') + 1:]
    if not files:
        return []
    mounts = OR.mounts_of(case)
    force = '-f' in argv[:argv.index('--')]
    inter = '-i' in argv[:argv.index('--')]
    rmap = reply_map(case, files)
    before, named, r, after = run_one(sim, case, files, rmap, st, mounts)
    # duplicates: handled as a special, narrower check
    locs = [n.loc for n in named if n.loc]
    has_dup = len(set(files)) < len(files)
    if not has_dup and OP.related(named):
        return []
    st.probes['lists'] += 1
    res = []
    optset = ','.join(a for a in argv[1:argv.index('--')])

    def bad(clause, cls, msg):
        res.append(('C16/%s/%s' % (clause, cls), '%s (argv %r, stdin %r, exit %s, faults %r)\nstderr: %s'
                    % (msg, argv, spec.get('stdin'), r.exit, case.get('faults'), r.errs[-800:])))

    if has_dup:
        st.probes['duplicates-lists'] += 1
        first = {}
        any_second_of_trashed = False
        for i, a in enumerate(files):
            if a in first:
                nm = named[first[a]]
                if nm.kind == 'entry' and nm.loc not in after:
                    any_second_of_trashed = True
            else:
                first[a] = i
        if any_second_of_trashed and not force and not inter and r.exc is None:
            if r.exit == 0:
                bad('duplicate-exit0', 'dup', 'the second occurrence of an already trashed argument must fail as nonexistent, but exit is 0')
        return res
    outs, probs = OP.judge(sim.root, before, after, named, mounts, OP.candidate_skeleton(spec.get('env', {}), spec.get('uid', 1000), mounts))
    # which arguments get a prompt (existing, not dot), in order
    prompt_idx = 0
    expected_fail = False
    classes = []
    outcomes = []
    for i, (nm, oc) in enumerate(zip(named, outs)):
        cls = classify(nm, files[i])
        reply = rmap.get(files[i])
        was_prompted = files[i] in r.prompted
        declined = was_prompted and (reply is None or not reply.lower().startswith('y'))
        fcls = cls
        for f in case.get('faults', []):
            if f.get('entry') == nm.loc:
                fcls = 'fault-immutable'
            if nm.loc and f.get('dir') == posixpath.dirname(nm.loc):
                fcls = 'fault-dir'
            if nm.loc and f.get('what') == 'name_errno' and f.get('basename') == posixpath.basename(nm.loc) + '.trashinfo':
                fcls = 'fault-info-creation'
        classes.append(fcls)
        state = oc.state
        legit_skip = (cls == 'missing' and force) or declined
        if state == 'trashed':
            st.probes['arg-trashed'] += 1
        st.probes.update({'arg-' + fcls: 1} if fcls != 'entry' else {})
        if declined:
            st.probes['arg-declined'] += 1
        if cls == 'missing' and force:
            st.probes['arg-missing-forced'] += 1
        if files[i] == '':
            st.probes['arg-empty-string'] += 1
        failed = (state != 'trashed') and not legit_skip
        if failed:
            expected_fail = True
            if not OP.reported_failed(r.errs, files[i]) and not (r.exc is not None and False):
                bad('failed-argument-not-named', fcls, 'argument %r was not trashed (state %s) and no "cannot trash" diagnostic names it' % (files[i], state))
        if state == 'half':
            bad('half-trashed:' + oc.why, fcls, 'argument %r ended half-trashed' % files[i])
        outcomes.append((state, oc.tdir, reply))
    if r.exc is not None:
        bad('traceback:%s' % r.exc_frame, '+'.join(sorted(set(classes))), 'trash-put raised %s' % r.exc)
    if expected_fail and r.exit == 0:
        bad('exit0-with-failed-argument', '+'.join(sorted(set(c for c in classes if c != 'entry'))), 'an argument failed but the exit status is 0')
    if not expected_fail and r.exit != 0:
        bad('nonzero-without-failure', '+'.join(sorted(set(classes))), 'every argument was trashed or legitimately skipped but the exit status is %s' % r.exit)
    st.probes['exit0' if r.exit == 0 else 'exit-nonzero'] += 1
    # independence: each argument alone
    if len(files) > 1:
        for i, a in enumerate(files):
            b2, n2, r2, a2 = run_one(sim, case, [a], rmap, st, mounts)
            st.probes['solo-runs'] += 1
            o2, _p2 = OP.judge(sim.root, b2, a2, n2, mounts, OP.candidate_skeleton(spec.get('env', {}), spec.get('uid', 1000), mounts))
            solo = (o2[0].state, o2[0].tdir)
            inlist = (outcomes[i][0], outcomes[i][1])
            if solo != inlist:
                others = '+'.join(sorted(set(c for j, c in enumerate(classes) if j != i)))
                bad('outcome-depends-on-other-arguments', '%s/others=%s' % (classes[i], others),
                    'argument %r alone: %r; as member %d of the list: %r' % (a, solo, i, inlist))
    # the same replies typed ahead (a pipe, a script): an argument that is refused or does not exist is not worth a question, so
    # taking it off the list changes nothing for the other arguments - each still meets the reply it met before
    if inter and len(files) > 1 and not case.get('faults') and not res:
        keep = [i for i, c in enumerate(classes) if c not in ('dot', 'missing')]
        if keep and len(keep) < len(files):
            def fixed(argv_files):
                c = copy.deepcopy(case)
                sp = c['procs'][0]
                sp['argv'] = argv[:argv.index('--') + 1] + argv_files
                sim.setup(c)
                b_ = sim.snap()
                n_ = [OP.name_entry(sim.root, sp.get('cwd', '/'), a, b_, mounts) for a in argv_files]
                r_ = sim.run(sp)
                st.sims += 1
                st.ops += r_.nops
                o_, _p = OP.judge(sim.root, b_, sim.snap(), n_, mounts, OP.candidate_skeleton(sp.get('env', {}), sp.get('uid', 1000), mounts))
                return [(o.state, o.tdir) for o in o_]
            full = fixed(files)
            part = fixed([files[i] for i in keep])
            st.probes['typed-ahead-replies-with-and-without-the-refused-arguments'] += 1
            for j, i in enumerate(keep):
                if full[i] != part[j]:
                    bad('typed-ahead-reply-taken-by-a-refused-argument', classes[i] + '/others=' + '+'.join(sorted(set(classes[k] for k in range(len(files)) if k not in keep))),
                        'with the replies %r typed ahead argument %r ends as %r; without the refused / nonexistent arguments on the command line, same replies: %r'
                        % (spec.get('stdin'), files[i], full[i], part[j]))
                    break
    failing = [c for c in classes if c != 'entry']
    if failing and len(failing) < len(classes):
        st.probes['mixed-lists'] += 1
        firstfail = min(i for i, c in enumerate(classes) if c != 'entry')
        st.distinct.add((tuple(sorted(classes)), optset, firstfail))
    seen, out = set(), []
    for s, m in res:
        if s not in seen:
            seen.add(s)
            out.append((s, m))
    return out
