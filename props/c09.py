"""C09 - trash-list shows exactly what is in the trash after any history.

Engine H: histories of put / restore / rm / empty / foreign additions over
several volumes; after every step the model bag read from disk must equal
trash-list's output, and every command must have changed the bag by exactly
the elements the spec-level model predicts."""
from __future__ import annotations

import collections
import datetime as _dt
import posixpath

from gen import base as G
from gen import trashgen as TG
from model import bag as MB
from model import glob as MG
from model import layout as ML
from model import reply as MR
from oracles import put as OP
from oracles import readers as OR
from props.c01 import parse_args as put_file_args
from sim import world as Wd

ID = 'C09'
TIER = 'quick'
LEVEL = 'exploration'
ENGINE = 'history'
BUDGET = {'quick': 3000, 'thorough': 60000}
WALL = {'quick': 90, 'thorough': 1500}
RULE = ('histories of 4-14 (quick) / 5-40 (thorough) simulated commands (put, restore, rm, empty, foreign additions, clock jumps) over '
        '1-4 volumes; after every step trash-list is run and compared with the model bag; non-trivial = the '
        'history changed the bag at least twice; distinct = distinct sequences of (command kind, bag size) pairs')
ASSUMPTIONS = ['file names in histories are valid UTF-8 (the non-UTF-8 case belongs to C16/C19)',
               'no populated insecure .Trash/$uid in these worlds (C08 covers them)',
               'entries of the home trash carry absolute Paths (relative ones belong to C20)']
PROBES = ['trash-dir-with-hundreds-of-entries', 'trashed-on-a-volume-the-listing-leaves-out', 'put-added', 'restore-removed', 'rm-removed', 'empty-removed', 'foreign-added', 'list-nonempty',
          'restored-then-trashed-again', 'volume-entry', 'boundary-ambiguous']
TECHNIQUE = 'deterministic simulation of command histories against an executable bag model (refinement check after every step)'
LEVEL_TEXT = ('seeded histories of the five real commands on a simulated multi-volume world; after each step an independent '
              'spec-level reader of the trash directories must agree with trash-list and with the predicted bag transition')
LEVEL_NOTE = 'trusted: model/bag.py (spec reader), model/glob.py, model/reply.py, vkernel; sampled histories'


def gen(rng):
    ts = [rng.choice(['absent', 'sticky', 'sticky', 'file', 'dangling']) for _ in range(4)]
    L = G.make_layout(rng, trash_states=ts, alt_states=[rng.choice(['absent', 'dir']) for _ in range(4)],
                      xdg=rng.choice(['unset', 'unset', 'set', 'link']))
    steps = L['steps']
    home, uid, env = L['home'], L['uid'], dict(L['env'])
    pool = G.pick_names(rng, 6, allow_invalid=False, trouble=0.3)
    user = []      # (dir, name)
    works = dict(L['work'])
    if L['home_mode'] != 'root' and rng.random() < 0.5:
        # the home directory is on a volume of its own: files of the root file system (/srv/...) are trashed into /.Trash-$uid or
        # /.Trash/$uid, the top-directory trash of the volume mounted at /
        works['/ (root volume)'] = '/srv/data'
        steps.append(['d', '/srv/data', 0o755])
    for vol, wd in sorted(works.items()):
        aux = home + '/aux' if vol.startswith('/ ') or vol == '/' else vol + '/aux'
        steps.append(['d', wd + '/sub', 0o755])
        steps.append(['d', wd + '/sub/deeper', 0o755])
        for d in (wd, wd + '/sub', wd + '/sub/deeper'):
            for nm in rng.sample(pool, rng.randint(0, 3)):
                G.make_entry(rng, d + '/' + nm, rng.choice(['file', 'file', 'empty', 'dir', 'link_file', 'link_dangling', 'emptydir']), steps, aux)
                user.append((d, nm))
    start = _dt.datetime(2024, rng.randint(1, 12), rng.randint(1, 28), rng.randint(0, 23), rng.randint(0, 59), rng.randint(0, 59), rng.randrange(10**6))
    TG.populate(rng, L, steps, names=pool, now=start, only_usable=True, kinds=('file', 'file', 'dir', 'link', 'none'), bulk=0.003)
    dirs = ['/', home, home + '/w', home + '/w/sub'] + [L['work'][v] for v in L['vols']] + list(L['vols'])
    procs = []
    tdopts = []
    if L['vols'] and rng.random() < 0.1:
        # some puts name the trash directory themselves: the .Trash-$uid of a volume, spelled directly or through a symlink in
        # the home directory.  What lands there is listed (by the plain commands, which find the directory by scanning the
        # volumes) with its real original path
        v_ = rng.choice(L['vols'])
        steps.append(['d', v_ + '/.Trash-%d' % uid, 0o700])
        steps.append(['l', home + '/tdlink', v_ + '/.Trash-%d' % uid])
        tdopts = [(v_, ['--trash-dir', rng.choice([home + '/tdlink', home + '/tdlink', v_ + '/.Trash-%d' % uid])])]
    for _k in range(rng.randint(4, 14) if TIER == 'quick' else rng.randint(5, 40)):
        r = rng.random()
        adv = rng.choice([0, 0, 1, 2, 59, 3600, 86400, 86400 * 3, 86400 * 40, -5])
        if r < 0.40 and user:
            cwd = rng.choice(dirs)
            args = []
            for d, nm in rng.sample(user, min(len(user), rng.choice([1, 1, 2, 3]))):
                p = d + '/' + nm
                args.append(p if rng.random() < 0.6 else posixpath.relpath(p, cwd))
            opt = []
            if tdopts and rng.random() < 0.5:
                v_, opt = tdopts[0]
                onvol = [(d, nm) for d, nm in user if d == v_ or d.startswith(v_ + '/')]
                if onvol:
                    args = [d + '/' + nm for d, nm in rng.sample(onvol, min(len(onvol), rng.choice([1, 2])))]
            procs.append({'argv': ['trash-put'] + opt + ['--'] + args, 'env': env, 'cwd': cwd, 'uid': uid, 'advance': adv})
        elif r < 0.60:
            cwd = rng.choice(dirs)
            argv = ['trash-restore']
            if rng.random() < 0.5:
                argv.append('--sort=' + rng.choice(['date', 'path']))
            if rng.random() < 0.15:
                argv.append('--overwrite')
            if rng.random() < 0.3:
                argv.append(rng.choice(dirs + ['sub', '.', '..']))
            reply = rng.choice(['0', '0', '1', '0-1', '0,1', '1,0', '0-3', '', '2', '99', 'x', '0,x', '1-0', '0,0'])
            procs.append({'argv': argv, 'env': env, 'cwd': cwd, 'uid': uid, 'stdin': reply + '\n' if rng.random() < 0.9 else reply,
                          'advance': adv})
        elif r < 0.75:
            nm = rng.choice(pool)
            pat = rng.choice([nm, nm, '*', nm[:1] + '*', '?' * len(nm), '*' + nm[-1:], home + '/w/*', '/*/' + nm, '[a-f]*', 'nomatch', nm.upper(),
                              '*sub*', '*/*', '[!a]*', '*w*', '*deeper*'])
            procs.append({'argv': ['trash-rm', pat], 'env': env, 'cwd': rng.choice(dirs), 'uid': uid, 'advance': adv})
        elif r < 0.85:
            argv = ['trash-empty']
            if rng.random() < 0.6:
                argv.append(str(rng.choice([0, 1, 2, 3, 30, 40, 365])))
            procs.append({'argv': argv, 'env': env, 'cwd': rng.choice(dirs), 'uid': uid, 'advance': adv})
        elif r < 0.90:
            procs.append({'argv': ['trash-list'], 'env': env, 'cwd': rng.choice(dirs), 'uid': uid, 'advance': adv})
        else:
            fs = []
            TG.populate(rng, L, fs, n=rng.randint(1, 2), names=pool, now=start, only_usable=True, kinds=('file', 'dir', 'link', 'none'))
            # foreign additions use fresh trash names
            tag = 'foreign%d_' % len(procs)
            for s in fs:
                for suffix in ('/files/', '/info/'):
                    if suffix in s[1]:
                        h, t = s[1].split(suffix, 1)
                        s[1] = h + suffix + tag + t
            procs.append({'foreign': fs, 'advance': adv})
    return {
        # (5 % of the worlds: a volume with a file-system type that the partition listing leaves out)
        'world': dict({'mounts': L['mounts'], 'steps': steps}, **({'unlisted': [rng.choice(L['vols'])]} if L['vols'] and rng.random() < 0.05 else
                                                                 # (4 %: the partition listing names a mount point twice - stacked mounts)
                                                                 {'mount_order': list(L['mounts']) + [rng.choice(L['vols'])]} if L['vols'] and rng.random() < 0.04 else
                                                                 # (5 %: several mount points of one device - btrfs subvolumes)
                                                                 {'same_device': list(L['vols'])} if len(L['vols']) >= 2 and rng.random() < 0.08 else
                                                                 # (5 %: a volume under automount control - an autofs line before its real line in the mount table)
                                                                 {'automount': [rng.choice(L['vols'])]} if L['vols'] and rng.random() < 0.05 else {})),
        'procs': procs,
        'dirsalt': rng.randrange(1 << 30),
        'clock': {'start': start.strftime('%Y-%m-%dT%H:%M:%S.%f'), 'utcoffset_s': rng.choice([0, 3600, -18000, 19800, 34200, 50400, -43200]),
                  # does the zone have DST rules (time.daylight) and is DST in effect now (tm_isdst)? utcoffset_s is the offset in effect
                  'dst': rng.choice([None, None, {'has': True, 'on': True}, {'has': True, 'on': False}])},
        'env': env, 'uid': uid,
    }


def _floor(d):
    return d.replace(microsecond=0)


def check(sim, case, st):
    sim.setup(case)
    mounts = OR.mounts_of(case)
    env, uid = case.get('env'), case.get('uid')
    if env is None:
        for p in case['procs']:
            if 'argv' in p:
                env, uid = p.get('env', {}), p.get('uid', 1000)
                break
        else:
            env, uid = {}, 1000
    res = []
    snap0 = sim.snap()
    if len(case['world']['steps']) > 400:
        st.probes['trash-dir-with-hundreds-of-entries'] += 1
    hidden_vols = set(case['world'].get('unlisted') or [])

    def on_hidden(tdir):
        return bool(hidden_vols) and ML.volume_of(mounts, tdir) in hidden_vols and not tdir.startswith(env.get('HOME', '/nonexistent') + '/.')

    def scan(snapshot):
        # what the readers can see: the trash directories of volumes whose file-system type the partition listing leaves out
        # are not visited by them (known finding, reported separately below)
        return [e for e in OR.scan(sim, snapshot, env, uid, mounts) if not on_hidden(e.tdir)]
    bag0 = scan(snap0)
    trail = []
    changes = 0
    restored_locs = set()
    t_first = None

    def bad(clause, msg, step):
        res.append(('C09/%s/%s' % (clause, step), msg))

    for idx, spec in enumerate(case['procs']):
        if 'foreign' in spec:
            sim.advance(spec.get('advance', 0))
            Wd.build(sim.root, {'steps': spec['foreign']})
            kind = 'foreign'
            r = None
        else:
            kind = posixpath.basename(spec['argv'][0])
            named = None
            if kind == 'trash-put':
                named = [OP.name_entry(sim.root, spec.get('cwd', '/'), a, snap0, mounts)
                         for a in put_file_args(spec['argv'])]
            r = sim.run(spec)
            st.sims += 1
            st.ops += r.nops
        snap1 = sim.snap()
        bag1 = scan(snap1)
        removed, added = OR.removed_added(bag0, bag1)
        if removed or added:
            changes += 1
        ctx = 'step %d %r' % (idx, spec.get('argv', 'foreign'))
        if kind == 'foreign':
            st.probes['foreign-added'] += len(added)
        elif r.exc is not None:
            bad('traceback', '%s raised %s at %s' % (ctx, r.exc, r.exc_frame), kind)
        elif kind == 'trash-put':
            st.probes['put-added'] += len(added)
            if removed:
                bad('put-removed-entries', '%s removed %r from the bag' % (ctx, removed), kind)
            if not OP.related(named):
                outs, _probs = OP.judge(sim.root, snap0, snap1, named, mounts)
                trashed = [o for o in outs if o.state == 'trashed']
                lost_sight = [o for o in trashed if on_hidden(o.tdir)]
                if lost_sight:
                    st.probes['trashed-on-a-volume-the-listing-leaves-out'] += 1
                    bad('put-onto-volume-the-readers-do-not-list', '%s: %r went to %s, on a volume that os.path.ismount() recognises but the '
                        'partition listing leaves out (tmpfs, overlay, sshfs, ZFS ...): trash-list / -restore / -rm / -empty never look there'
                        % (ctx, lost_sight[0].named.loc, lost_sight[0].tdir), kind)
                    trashed = [o for o in trashed if not on_hidden(o.tdir)]
                if len(added) != len(trashed):
                    bad('put-bag-delta', '%s: %d argument(s) left their place into a trash dir but the bag grew by %d (%r)'
                        % (ctx, len(trashed), len(added), added), kind)
                lo = _floor(min(r.clock)) if r.clock else None
                hi = max(r.clock) if r.clock else None
                for o in trashed:
                    m = [e for e in added if e.location == o.named.loc]
                    if not m:
                        bad('put-location', '%s: %r trashed but no new bag element with that location (new: %r)'
                            % (ctx, o.named.loc, added), kind)
                    elif lo is not None and not any(e.date is not None and lo <= e.date <= hi for e in m):
                        bad('put-date', '%s: date of new element %r outside the command window [%s, %s]' % (ctx, m, lo, hi), kind)
                    if o.named.loc in restored_locs:
                        st.probes['restored-then-trashed-again'] += 1
                    if m and m[0].kind != 'home':
                        st.probes['volume-entry'] += 1
        elif kind == 'trash-restore':
            st.probes['restore-removed'] += len(removed)
            if added:
                bad('restore-added', '%s added %r' % (ctx, added), kind)
            _check_restore(sim, spec, r, bag0, removed, snap0, snap1, bad, ctx, st, restored_locs)
        elif kind == 'trash-rm':
            st.probes['rm-removed'] += len(removed)
            if added:
                bad('rm-added', '%s added %r' % (ctx, added), kind)
            files = [a for a in spec['argv'][1:]]
            if files:
                pat = files[0]
                exp = set(e.key() for e in bag0 if e.location is not None and MG.rm_matches(e.location, pat))
                got = set(e.key() for e in removed)
                if exp != got:
                    bad('rm-set', '%s: removed %r, model says %r' % (ctx, sorted(got), sorted(exp)), kind)
        elif kind == 'trash-empty':
            st.probes['empty-removed'] += len(removed)
            if added:
                bad('empty-added', '%s added %r' % (ctx, added), kind)
            days = [a for a in spec['argv'][1:] if not a.startswith('-')]
            got = set(e.key() for e in removed)
            if not days:
                exp = set(e.key() for e in bag0)
                if exp != got:
                    bad('empty-all', '%s: left %r in the trash' % (ctx, sorted(exp - got)), kind)
            else:
                d = int(days[0])
                if r.clock:
                    first, last = min(r.clock), max(r.clock)
                else:
                    # the command did not ask the time: the simulated local time (which then did not tick) at which it ran decides
                    from sim import proc as P
                    first = last = P.CLOCK.now
                must = set(e.key() for e in bag0 if e.date is not None and OR.older_than(e.date, first, d))
                may = set(e.key() for e in bag0 if e.date is not None and OR.older_than(e.date, last, d))
                if may - must:
                    st.probes['boundary-ambiguous'] += 1
                if not (must <= got <= may):
                    bad('empty-days', '%s (now in [%s, %s]): removed %r, model: at least %r at most %r'
                        % (ctx, first, last, sorted(got), sorted(must), sorted(may)), kind)
        elif kind == 'trash-list':
            if removed or added:
                bad('list-changed-bag', '%s changed the bag' % ctx, kind)
        # (i) trash-list must print exactly the bag
        rl = OR.run_list(sim, env, uid, '/')
        st.sims += 1
        st.ops += rl.nops
        if rl.exc is not None:
            bad('list-traceback', 'trash-list after %s raised %s at %s' % (ctx, rl.exc, rl.exc_frame), 'after-' + kind)
        else:
            d = OR.compare_list(rl.outs, bag1)
            if d:
                bad('list-mismatch', 'trash-list after %s: %s' % (ctx, d), 'after-' + kind)
            if bag1:
                st.probes['list-nonempty'] += 1
        state = hash_bag(bag1)
        st.states.add(state)
        if trail:
            st.transitions.add((trail[-1][1], kind, state))
        trail.append((kind, state, len(bag1)))
        snap0, bag0 = snap1, bag1
    if changes >= 2:
        st.distinct.add(tuple((k, n) for k, _s, n in trail))
    seen, out = set(), []
    for s, m in res:
        if s not in seen:
            seen.add(s)
            out.append((s, m))
    return out


def hash_bag(bag):
    return hash(tuple(sorted((e.location or '', MB.fmt_date(e.date)) for e in bag)))


def restore_scope(sim, spec, snapshot):
    cwd = spec.get('cwd', '/')
    real = ML.resolve(snapshot, cwd) or cwd
    path = ''
    sort = 'date'
    skip = False
    for a in spec['argv'][1:]:
        if skip:
            skip = False
            continue
        if a == '--trash-dir' or a == '--sort':
            skip = True
            continue
        if a.startswith('-'):
            continue
        path = a
    if not path:
        return real
    sc = posixpath.normpath(posixpath.join(real, path))
    while sc.startswith('//'):
        sc = sc[1:]
    return sc


def _check_restore(sim, spec, r, bag0, removed, snap0, snap1, bad, ctx, st, restored_locs):
    scope = restore_scope(sim, spec, snap0)
    inscope = [e for e in bag0 if e.location is not None and MR.in_scope(e.location, scope)]
    listing = OR.parse_restore_listing(r.outs)
    kind = 'trash-restore'
    if listing is None:
        return      # names with newlines etc.: cannot be parsed unambiguously
    exp = collections.Counter((str(e.date) if e.date else 'None', e.location) for e in inscope)
    got = collections.Counter((d, p) for _i, d, p in listing)
    if exp != got:
        bad('restore-listing', '%s (scope %r): listed %r, model says %r' % (ctx, scope, sorted(got.elements()), sorted(exp.elements())), kind)
        return
    stdin = spec.get('stdin', '')
    if not listing:
        if removed:
            bad('restore-removed-unlisted', '%s removed %r' % (ctx, removed), kind)
        return
    line = stdin.split('\n', 1)[0] if stdin else None
    if line is None or (line == '' ):
        idxs, det = [], True
        if removed:
            bad('restore-empty-reply', '%s: empty reply / EOF but removed %r' % (ctx, removed), kind)
        return
    idxs, det = MR.parse(line, len(listing))
    rem = collections.Counter((str(e.date) if e.date else 'None', e.location) for e in removed)
    if idxs is None:
        if removed and det:
            bad('restore-invalid-reply', '%s: reply %r is invalid but %r left the trash' % (ctx, line, removed), kind)
        if det and r.exit == 0:
            bad('restore-invalid-exit', '%s: reply %r is invalid but exit status is 0' % (ctx, line), kind)
        return
    if not det:
        return
    sel = collections.Counter((listing[i][1], listing[i][2]) for i in set(idxs))
    if rem - sel:
        bad('restore-wrong-entry', '%s: reply %r selects %r but %r left the trash' % (ctx, line, sorted(sel.elements()), sorted(rem.elements())), kind)
    elif r.exit == 0 and sel != rem:
        bad('restore-incomplete', '%s: reply %r selects %r, exit 0, but only %r left the trash' % (ctx, line, sorted(sel.elements()), sorted(rem.elements())), kind)
    for e in removed:
        restored_locs.add(e.location)
