"""C06 - trash-restore never clobbers an existing destination unless
--overwrite is given."""
from __future__ import annotations

import posixpath

from gen import base as G
from gen import trashgen as TG
from model import layout as ML
from model import reply as MR
from oracles import readers as OR
from sim import world as Wd

ID = 'C06'
LEVEL = 'exploration'
ENGINE = 'history'
BUDGET = {'quick': 8000, 'thorough': 100000}
WALL = {'quick': 45, 'thorough': 1500}
RULE = ('one trash-restore per case: 1-4 trashed entries (file, dir, symlink) whose original locations are occupied by a generated '
        'destination kind (absent, file, empty file, empty/non-empty dir, symlink to file/dir, dangling symlink, self-loop), with and '
        'without --overwrite, single and multi-index replies; in 15 % of the cases the occupants appear only while trash-restore waits for the reply (environment event); non-trivial = a selected entry has an occupied destination; distinct = '
        '(trashed kind, destination kind, overwrite, position in selection)')
ASSUMPTIONS = ['with --overwrite and a directory at the destination the outcome is not specified by the property and not judged',
               'what happens to entries selected after a refused one is not specified and not judged']
PROBES = ['restore-across-devices', 'destination-directory-cannot-be-listed', 'same-location-twice', 'refused', 'overwritten', 'restored-to-free-destination', 'multi-index', 'dest-dangling', 'dest-symlink-dir', 'dest-dir',
          'dest-file', 'restored-before-refusal', 'destination-occupied-after-the-listing']
TECHNIQUE = 'deterministic simulation of trash-restore against generated destination states; snapshot oracle on destination, link targets and trash pair'
LEVEL_TEXT = 'seeded exploration of trashed kind x destination kind x --overwrite x selection; judged on real file-system semantics'
LEVEL_NOTE = 'trusted: snapshot function, model/bag.py'

DEST = ['absent', 'absent', 'file', 'emptyfile', 'emptydir', 'dir', 'link_file', 'link_dir', 'dangling', 'dangling', 'selfloop']


def gen(rng):
    L = G.make_layout(rng, nvol=rng.choice([0, 1]), trash_states=['absent'], alt_states=[rng.choice(['absent', 'dir'])],
                      xdg='unset', home_mode=rng.choice(['root', 'homevol']))
    steps = L['steps']
    home = L['home']
    locs = [t for t in TG.trash_locations(L) if t[2]]
    n = rng.choice([1, 1, 2, 3, 4])
    # (5 %: one entry of which only the .trashinfo is there - a restore that was stopped after its move, a half-done purge - and
    # whose destination is occupied: without --overwrite that is a reason to refuse it like any other entry)
    nopayload = rng.random() < 0.05
    if nopayload:
        n = 1
    ngen2 = 0
    late = [] if rng.random() < 0.15 else None
    xdev = [0]
    steps.append(['d', home + '/tg', 0o755])
    steps.append(['f', home + '/tg/linked_file', 'target content', 0o644, 1_111_111_111])
    steps.append(['d', home + '/tg/linked_dir', 0o755])
    steps.append(['f', home + '/tg/linked_dir/inside', 'in', 0o644, 1_111_111_112])
    for i in range(n):
        tdir, top, _u = rng.choice(locs)
        base = (home + '/w') if top is None else (L['work'][top])
        if top is None and L['vols'] and rng.random() < 0.3:
            # an entry of the home trash that was trashed from another volume (home fallback, or moved there by a file
            # manager): restoring it is a copy + delete across devices, not a rename
            base = L['work'][rng.choice(L['vols'])]
            xdev[0] += 1
        # (names that end - or, in a relative Path, begin - with blanks: the location is exactly what was recorded, blanks included)
        nm = rng.choice(['', '', '', ' ', '\t']) + 'ent%d' % i + rng.choice(['', '', '', ' ', '\t', '  ', ' \n'])
        tn = nm
        if rng.random() < 0.08:
            # a base name of 236-255 bytes at the original location (in the trash it lives under a shorter name, as trash-put
            # shortens names whose '<name>.trashinfo' would not fit): whatever is derived from the destination name must still fit
            tn = 'ent%d' % i
            nm = ('ent%d-' % i + rng.choice(['L', 'é', '日']) * 255).encode('utf-8')[:rng.randint(236, 255)].decode('utf-8', 'ignore')
        if top is not None and nm.startswith((' ', '\t')) and rng.random() < 0.5:
            base = top            # directly below the top directory: the relative Path begins with the blank
        loc = base + '/' + nm
        pv = TG.pct(loc if top is None else loc[len(top) + 1:])
        if rng.random() < 0.05 and late is None:
            # a Path written by another trasher as '$PWD/$1' from inside a directory that is gone by now: '<gone>/../<name>' - the
            # kernel cannot walk it until somebody creates <gone>; the destination it names is occupied all the same
            spelled = base + '/gone%d/../' % i + nm
            pv = TG.pct(spelled if top is None else spelled[len(top) + 1:])
        # (7 %: only the .trashinfo is there - a restore that was stopped after its move, a half-done purge; such an entry is
        # listed like any other, and an occupied destination is a reason to refuse it like any other)
        G.add_trashed(steps, tdir, tn, pv, TG.iso(TG.rand_date(rng)), rng.choice(['file', 'dir', 'link']) if not nopayload else 'none', tag=str(i))
        if rng.random() < 0.2 and not nopayload:
            # an older generation trashed from the same location
            G.add_trashed(steps, tdir, tn + '_1', pv, TG.iso(TG.rand_date(rng)), rng.choice(['file', 'dir', 'link']), tag='gen2-%d' % i)
            ngen2 += 1
        dk = rng.choice(DEST)
        if nopayload:
            dk = rng.choice([x for x in DEST if x != 'absent'])
        if late is not None:
            # the occupant appears while trash-restore waits for the reply (after the listing was printed)
            occ_steps = late
        else:
            occ_steps = steps
        if dk == 'file':
            occ_steps.append(['f', loc, 'existing-%d' % i, 0o640, 1_222_222_222])
            if rng.random() < 0.3:
                # the occupant has a second hard link elsewhere on its volume: replacing the occupant does not touch that one
                occ_steps.append(['h', posixpath.dirname(base) + '/keep-%d' % i, loc])
        elif dk == 'emptyfile':
            occ_steps.append(['f', loc, '', 0o644, 1_222_222_223])
        elif dk == 'emptydir':
            occ_steps.append(['d', loc, 0o755])
        elif dk == 'dir':
            occ_steps.append(['d', loc, 0o755])
            occ_steps.append(['f', loc + '/occupant', 'occ', 0o644, 1_222_222_224])
        elif dk == 'link_file':
            occ_steps.append(['l', loc, home + '/tg/linked_file'])
        elif dk == 'link_dir':
            occ_steps.append(['l', loc, home + '/tg/linked_dir'])
        elif dk == 'dangling':
            # (a target that is simply not there: ENOENT - or one whose path runs through a regular file: following it is ENOTDIR)
            occ_steps.append(['l', loc, rng.choice(['nothing', '/no/where', home + '/tg/linked_file/bin/tool', home + '/tg/linked_file/x'])])
        elif dk == 'selfloop':
            occ_steps.append(['l', loc, nm])
    faults = []
    if rng.random() < 0.1:
        # the directory the entries were trashed from can be written and searched but not listed by this user (a drop box, mode
        # 0300 / 1733): what occupies a destination there still occupies it
        faults.append({'kind': 'cond', 'what': 'dir_not_readable', 'dir': posixpath.dirname(loc)})
    argv = ['trash-restore']
    if rng.random() < 0.45 and not nopayload:
        argv.append('--overwrite')
    argv.append('/')
    if rng.random() < 0.5:
        argv.append('--sort=path')
    idx = list(range(n + ngen2))
    rng.shuffle(idx)
    sel = idx[:rng.randint(1, n + ngen2)]
    reply = ','.join(str(i) for i in sel)
    if n + ngen2 > 1 and rng.random() < 0.25:
        reply = '0-%d' % (n + ngen2 - 1)
    return {
        'world': {'mounts': L['mounts'], 'steps': steps},
        'procs': [{'argv': argv, 'env': L['env'], 'cwd': '/', 'uid': L['uid'], 'stdin': reply + '\n'}],
        'dirsalt': rng.randrange(1 << 30),
        'late_occupants': late or [],
        'faults': faults,
        'note': {'xdev': xdev[0], 'unlistable': bool(faults)},
    }


def dest_kind(snap, loc):
    e = snap.get(loc)
    if e is None:
        return 'absent'
    if e[0] == 'l':
        t = ML.resolve(snap, loc)
        te = snap.get(t) if t else None
        return 'symlink->' + ('nothing' if te is None else {'f': 'file', 'd': 'dir'}.get(te[0], 'x'))
    if e[0] == 'd':
        return 'dir'
    return 'file'


def mapping_free(st, snap0, snap1, bag0, overwrite, r):
    """the part of the statement that needs no attribution of printed indices to entries: whatever was selected, an entry
    whose recorded original location was occupied never leaves the trash without --overwrite, the occupant (and what a
    symlink occupant points to) stays as it was; with --overwrite an entry that left the trash replaced a non-directory occupant"""
    st.probes['judged-without-index-mapping'] += 1
    res = []
    byloc = {}
    for e in bag0:
        if e.location is not None:
            byloc.setdefault(e.location, []).append(e)
    for loc, ents in sorted(byloc.items()):
        if len(ents) != 1 or loc not in snap0:
            continue
        if any(o != loc and (o.startswith(loc + '/') or loc.startswith(o + '/')) for o in byloc):
            continue
        e = ents[0]
        dk = dest_kind(snap0, loc)
        want = OR.payload_tree(snap0, e)
        tk = {'f': 'file', 'd': 'dir', 'l': 'symlink', 'o': 'other'}.get((want.get('') or 'o')[0], 'none')
        gone = OR.pair_gone(snap1, e)
        tgt = ML.resolve(snap0, loc) if snap0[loc][0] == 'l' else None
        if not overwrite:
            if gone or not OR.pair_intact(snap0, snap1, e):
                res.append(('C06/clobbered-without-overwrite/trashed=%s/dest=%s' % (tk, dk),
                            'destination %r (%s) was occupied, no --overwrite, but the entry %r left the trash or changed (exit %s)\nstderr: %s'
                            % (loc, dk, e, r.exit, r.errs[-300:])))
            elif not Wd.same_tree(Wd.subtree(snap0, loc), Wd.subtree(snap1, loc)) or \
                    (tgt and tgt not in byloc and not Wd.same_tree(Wd.subtree(snap0, tgt), Wd.subtree(snap1, tgt))):
                res.append(('C06/clobbered-without-overwrite/trashed=%s/dest=%s' % (tk, dk),
                            'destination %r (%s) was occupied, no --overwrite, but it (or what it points to) changed' % (loc, dk)))
        elif gone and not dk.startswith('dir'):
            if not Wd.same_tree(want, Wd.subtree(snap1, loc)):
                res.append(('C06/overwrite-did-not-replace/trashed=%s/dest=%s' % (tk, dk),
                            '--overwrite: entry %r left the trash but its destination %r (%s) holds %r instead of the restored %s'
                            % (e, loc, dk, Wd.subtree(snap1, loc), tk)))
            elif tgt and tgt not in byloc and dk != 'symlink->nothing' and not Wd.same_tree(Wd.subtree(snap0, tgt), Wd.subtree(snap1, tgt)):
                res.append(('C06/overwrite-touched-link-target/trashed=%s/dest=%s' % (tk, dk),
                            '--overwrite on %r (%s): the former target %r changed' % (loc, dk, tgt)))
    seen, out = set(), []
    for sg, m in res:
        if sg not in seen:
            seen.add(sg)
            out.append((sg, m))
    return out


def check(sim, case, st):
    sim.setup(case)
    spec = case['procs'][0]
    argv = spec['argv']
    env, uid = spec.get('env', {}), spec.get('uid', 1000)
    mounts = OR.mounts_of(case)
    snap0 = sim.snap()
    bag0 = OR.scan(sim, snap0, env, uid, mounts)
    if case.get('late_occupants'):
        # environment event: the destinations get occupied after the listing, before the reply is read
        from sim.vkernel import environment
        holder = {}

        def user(_out):
            if 'snap' not in holder:
                with environment():
                    Wd.build(sim.root, {'steps': case['late_occupants']})
                    holder['snap'] = sim.snap()
                return spec.get('stdin', '\n')
            return None
        r = sim.run(spec, stdin_fn=user)
        if 'snap' in holder:
            snap0 = holder['snap']
            st.probes['destination-occupied-after-the-listing'] += 1
    else:
        r = sim.run(spec)
    st.sims += 1
    if case.get('note', {}).get('xdev'):
        st.probes['restore-across-devices'] += 1
    if case.get('note', {}).get('unlistable'):
        st.probes['destination-directory-cannot-be-listed'] += 1
    st.ops += r.nops
    snap1 = sim.snap()
    res = []
    overwrite = '--overwrite' in argv
    listing = OR.parse_restore_listing(r.outs)
    if listing is None or not listing:
        st.probes['premise-not-met:nothing-listed'] += 1         # what must be listed is C13's
        return mapping_free(st, snap0, snap1, bag0, overwrite, r)
    line = spec.get('stdin', '').split('\n', 1)[0]
    idxs, det = MR.parse(line, len(listing))
    if idxs is None or not det:
        return mapping_free(st, snap0, snap1, bag0, overwrite, r)
    order = []
    for i in idxs:
        if i not in order:
            order.append(i)
    if len(order) > 1:
        st.probes['multi-index'] += 1
    # map printed lines to bag entries by (date, location)
    bykey = {}
    for e in bag0:
        if e.location is not None:
            bykey.setdefault((str(e.date) if e.date else 'None', e.location), []).append(e)
    locs_sel = [listing[i][2] for i in order]
    if any(o != l and (o.startswith(l + '/') or l.startswith(o + '/')) for o in locs_sel for l in locs_sel):
        return []
    # sequential model of the selection.  Pass 1: what each step should do,
    # assuming the steps before it succeeded.
    steps = []           # (entry, loc, action, trashed kind, occupant kind, occupant tree, payload tree)
    state = {}           # location -> tree the model expects there
    for pos, i in enumerate(order):
        loc = listing[i][2]
        ents = bykey.get((listing[i][1], loc), [])
        if len(ents) != 1:
            # the printed line cannot be attributed to one entry (e.g. it shows another path than the recorded one)
            return mapping_free(st, snap0, snap1, bag0, overwrite, r)
        e = ents[0]
        want = OR.payload_tree(snap0, e)
        tk = {'f': 'file', 'd': 'dir', 'l': 'symlink', 'o': 'other'}.get((want.get('') or 'o')[0], 'none')
        if loc in state:
            occupant = state[loc]
            dk = {'f': 'file', 'd': 'dir', 'l': 'symlink'}.get((occupant.get('') or 'o')[0], 'file') + '(restored-just-before)'
            st.probes['same-location-twice'] += 1
        else:
            occupant = Wd.subtree(snap0, loc)
            dk = dest_kind(snap0, loc)
        if not occupant:
            action = 'free'
        elif not overwrite:
            action = 'refuse'
        elif dk.startswith('dir'):
            action = 'unspecified'
        else:
            action = 'overwrite'
        steps.append((e, loc, action, tk, dk, occupant, want))
        if action in ('refuse', 'unspecified'):
            break
        state[loc] = want
        if action != 'free':
            st.distinct.add((tk, dk, overwrite, min(pos, 2)))
    # locations that entries selected AFTER the point where the model stops may
    # touch: nothing is specified for them
    later_locs = set(listing[i][2] for i in order[len(steps):])
    if steps and steps[-1][2] == 'unspecified':
        later_locs.add(steps[-1][1])
    # Pass 2: how far did the implementation get?  (an entry that left the trash was processed)
    left = [OR.pair_gone(snap1, stp[0]) for stp in steps]
    k = None
    for idx, l in enumerate(left):
        if not l:
            k = idx
            break
    done = steps if k is None else steps[:k]
    # steps that completed: every one of them must have been allowed to
    final = {}
    for (e, loc, action, tk, dk, occupant, want) in done:
        if action == 'refuse':
            st.distinct.add((tk, dk, overwrite, 0))
            res.append(('C06/clobbered-without-overwrite/trashed=%s/dest=%s' % (tk, dk),
                        'destination %r (%s) was occupied, no --overwrite, but the entry %r left the trash: destination now %r (exit %s)\nstderr: %s'
                        % (loc, dk, e, Wd.subtree(snap1, loc), r.exit, r.errs[-300:])))
            break
        if action == 'unspecified':
            break
        if loc in final and final[loc][2] == 'symlink->dir':
            # a later generation on a location whose first restore went through a symlink to a
            # directory: attribute any mismatch to that first step (known root cause)
            final[loc] = (want, final[loc][1], 'symlink->dir', action)
        else:
            final[loc] = (want, tk, dk, action)
    if not res:
        for loc, (tree, tk, dk, action) in final.items():
            if loc in later_locs:
                continue
            have = Wd.subtree(snap1, loc)
            if Wd.same_tree(tree, have):
                st.probes['overwritten' if action == 'overwrite' else 'restored-to-free-destination'] += 1
                if action == 'overwrite' and dk.startswith('symlink->') and dk != 'symlink->nothing':
                    t = ML.resolve(snap0, loc)
                    if t and t not in final and not Wd.same_tree(Wd.subtree(snap0, t), Wd.subtree(snap1, t)):
                        res.append(('C06/overwrite-touched-link-target/trashed=%s/dest=%s' % (tk, dk),
                                    '--overwrite on %r (%s): the former target %r changed: %r -> %r' % (loc, dk, t, Wd.subtree(snap0, t), Wd.subtree(snap1, t))))
            elif action == 'free':
                res.append(('C06/free-destination-not-restored/%s' % tk, 'entry left the trash, destination %r was free, but it holds %r instead of the trashed %s (exit %s) stderr %s'
                            % (loc, have, tk, r.exit, r.errs[-300:])))
            else:
                res.append(('C06/overwrite-did-not-replace/trashed=%s/dest=%s' % (tk, dk),
                            '--overwrite: entry left the trash but destination %r (%s) holds %r instead of the restored %s (exit %s)\nstderr: %s'
                            % (loc, dk, have, tk, r.exit, r.errs[-300:])))
    # the first step that did not complete
    if k is not None and not res:
        e, loc, action, tk, dk, occupant, want = steps[k]
        have = Wd.subtree(snap1, loc)
        expected_there = final[loc][0] if loc in final else occupant
        if action == 'refuse':
            st.distinct.add((tk, dk, overwrite, min(k, 2)))
            st.probes['dest-' + ('dangling' if dk == 'symlink->nothing' else 'symlink-dir' if dk == 'symlink->dir' else 'dir' if dk.startswith('dir') else 'file')] += 1
            if not Wd.same_tree(expected_there, have):
                res.append(('C06/clobbered-without-overwrite/trashed=%s/dest=%s' % (tk, dk),
                            'destination %r (%s) was occupied, no --overwrite, but it changed: %r -> %r (exit %s)\nstderr: %s'
                            % (loc, dk, expected_there, have, r.exit, r.errs[-300:])))
            else:
                st.probes['refused'] += 1
            if not OR.pair_intact(snap0, snap1, e):
                res.append(('C06/refused-but-pair-changed/trashed=%s/dest=%s' % (tk, dk),
                            'destination %r was occupied, no --overwrite, but the trashed pair %r changed' % (loc, e)))
            if r.exit == 0:
                res.append(('C06/refusal-exit0/trashed=%s/dest=%s' % (tk, dk), 'destination %r (%s) was occupied, no --overwrite, exit status 0; stderr %r' % (loc, dk, r.errs[-200:])))
            if k > 0:
                st.probes['restored-before-refusal'] += 1
        elif action == 'free' and '/../' in loc:
            # ('<gone>/../x' with a free destination: making the parent directory 'gone/..' fails - refusing is harmless and not
            # C06's business; what matters for this spelling is the OCCUPIED destination)
            st.probes['dotted-path-free-destination-not-restored'] += 1
        elif action == 'free':
            res.append(('C06/free-destination-not-restored/%s' % tk, 'destination %r was free and selected, but the entry %r did not leave the trash (exit %s) stderr %s'
                        % (loc, e, r.exit, r.errs[-300:])))
        elif action == 'overwrite':
            res.append(('C06/overwrite-did-not-replace/trashed=%s/dest=%s' % (tk, dk),
                        '--overwrite: destination %r (%s) should be replaced by the restored %s, but the entry did not leave the trash; destination holds %r (exit %s)\nstderr: %s'
                        % (loc, dk, tk, have, r.exit, r.errs[-300:])))
            if not Wd.same_tree(expected_there, have) and dk.startswith('symlink->dir'):
                pass
    # replacing an occupant means taking ITS NAME: another hard link of the same file keeps the old content
    for k_, v_ in snap0.items():
        if '/keep-' in k_ and v_[0] == 'f' and not Wd.same_entry(v_, snap1.get(k_)):
            st.probes['occupant-has-a-second-hard-link'] += 0
            res.append(('C06/other-hard-link-of-the-occupant-changed', 'the occupant had a second hard link %r: it was %r, is now %r (argv %r, exit %s)'
                        % (k_, v_, snap1.get(k_), spec['argv'], r.exit)))
            break
    seen, out = set(), []
    for s, m in res:
        if s not in seen:
            seen.add(s)
            out.append((s, m))
    return out
