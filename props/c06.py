"""C06 - trash-restore never clobbers an existing destination unless
--overwrite is given."""
from __future__ import annotations

from gen import base as G
from gen import trashgen as TG
from model import layout as ML
from model import reply as MR
from oracles import readers as OR
from sim import world as Wd

ID = 'C06'
LEVEL = 'exploration'
ENGINE = 'history'
BUDGET = {'quick': 8000, 'thorough': 100000}
WALL = {'quick': 45, 'thorough': 1500}
RULE = ('one trash-restore per case: 1-4 trashed entries (file, dir, symlink) whose original locations are occupied by a generated '
        'destination kind (absent, file, empty file, empty/non-empty dir, symlink to file/dir, dangling symlink, self-loop), with and '
        'without --overwrite, single and multi-index replies; non-trivial = a selected entry has an occupied destination; distinct = '
        '(trashed kind, destination kind, overwrite, position in selection)')
ASSUMPTIONS = ['with --overwrite and a directory at the destination the outcome is not specified by the property and not judged',
               'what happens to entries selected after a refused one is not specified and not judged']
PROBES = ['refused', 'overwritten', 'restored-to-free-destination', 'multi-index', 'dest-dangling', 'dest-symlink-dir', 'dest-dir',
          'dest-file', 'restored-before-refusal']
TECHNIQUE = 'deterministic simulation of trash-restore against generated destination states; snapshot oracle on destination, link targets and trash pair'
LEVEL_TEXT = 'seeded exploration of trashed kind x destination kind x --overwrite x selection; judged on real file-system semantics'
LEVEL_NOTE = 'trusted: snapshot function, model/bag.py'

DEST = ['absent', 'absent', 'file', 'emptyfile', 'emptydir', 'dir', 'link_file', 'link_dir', 'dangling', 'selfloop']


def gen(rng):
    L = G.make_layout(rng, nvol=rng.choice([0, 1]), trash_states=['absent'], alt_states=[rng.choice(['absent', 'dir'])],
                      xdg='unset', home_mode=rng.choice(['root', 'homevol']))
    steps = L['steps']
    home = L['home']
    locs = [t for t in TG.trash_locations(L) if t[2]]
    n = rng.choice([1, 1, 2, 3, 4])
    steps.append(['d', home + '/tg', 0o755])
    steps.append(['f', home + '/tg/linked_file', 'target content', 0o644, 1_111_111_111])
    steps.append(['d', home + '/tg/linked_dir', 0o755])
    steps.append(['f', home + '/tg/linked_dir/inside', 'in', 0o644, 1_111_111_112])
    for i in range(n):
        tdir, top, _u = rng.choice(locs)
        base = (home + '/w') if top is None else (top + '/docs')
        nm = 'ent%d' % i
        loc = base + '/' + nm
        pv = TG.pct(loc if top is None else loc[len(top) + 1:])
        G.add_trashed(steps, tdir, nm, pv, TG.iso(TG.rand_date(rng)), rng.choice(['file', 'dir', 'link']), tag=str(i))
        dk = rng.choice(DEST)
        if dk == 'file':
            steps.append(['f', loc, 'existing-%d' % i, 0o640, 1_222_222_222])
        elif dk == 'emptyfile':
            steps.append(['f', loc, '', 0o644, 1_222_222_223])
        elif dk == 'emptydir':
            steps.append(['d', loc, 0o755])
        elif dk == 'dir':
            steps.append(['d', loc, 0o755])
            steps.append(['f', loc + '/occupant', 'occ', 0o644, 1_222_222_224])
        elif dk == 'link_file':
            steps.append(['l', loc, home + '/tg/linked_file'])
        elif dk == 'link_dir':
            steps.append(['l', loc, home + '/tg/linked_dir'])
        elif dk == 'dangling':
            steps.append(['l', loc, rng.choice(['nothing', '/no/where'])])
        elif dk == 'selfloop':
            steps.append(['l', loc, nm])
    argv = ['trash-restore']
    if rng.random() < 0.45:
        argv.append('--overwrite')
    argv.append('/')
    if rng.random() < 0.5:
        argv.append('--sort=path')
    idx = list(range(n))
    rng.shuffle(idx)
    sel = idx[:rng.randint(1, n)]
    reply = ','.join(str(i) for i in sel)
    if n > 1 and rng.random() < 0.2:
        reply = '0-%d' % (n - 1)
    return {
        'world': {'mounts': L['mounts'], 'steps': steps},
        'procs': [{'argv': argv, 'env': L['env'], 'cwd': '/', 'uid': L['uid'], 'stdin': reply + '\n'}],
        'dirsalt': rng.randrange(1 << 30),
    }


def dest_kind(snap, loc):
    e = snap.get(loc)
    if e is None:
        return 'absent'
    if e[0] == 'l':
        t = ML.resolve(snap, loc)
        te = snap.get(t) if t else None
        return 'symlink->' + ('nothing' if te is None else {'f': 'file', 'd': 'dir'}.get(te[0], 'x'))
    if e[0] == 'd':
        return 'dir'
    return 'file'


def check(sim, case, st):
    sim.setup(case)
    spec = case['procs'][0]
    argv = spec['argv']
    env, uid = spec.get('env', {}), spec.get('uid', 1000)
    mounts = OR.mounts_of(case)
    snap0 = sim.snap()
    bag0 = OR.scan(sim, snap0, env, uid, mounts)
    r = sim.run(spec)
    st.sims += 1
    st.ops += r.nops
    snap1 = sim.snap()
    res = []
    overwrite = '--overwrite' in argv
    listing = OR.parse_restore_listing(r.outs)
    if listing is None or not listing:
        return []
    line = spec.get('stdin', '').split('\n', 1)[0]
    idxs, det = MR.parse(line, len(listing))
    if idxs is None or not det:
        return []
    order = []
    for i in idxs:
        if i not in order:
            order.append(i)
    if len(order) > 1:
        st.probes['multi-index'] += 1
    # map printed lines to bag entries (locations are unique in this generator)
    byloc = {}
    for e in bag0:
        if e.location is not None:
            byloc.setdefault(e.location, []).append(e)
    refused_seen = False
    locs_sel = [listing[i][2] for i in order]
    for pos, i in enumerate(order):
        loc = listing[i][2]
        ents = byloc.get(loc, [])
        if len(ents) != 1 or locs_sel.count(loc) != 1:
            return []
        e = ents[0]
        if any(o != loc and (o.startswith(loc + '/') or loc.startswith(o + '/')) for o in locs_sel):
            return []
        dk = dest_kind(snap0, loc)
        tk = {'f': 'file', 'd': 'dir', 'l': 'symlink', 'o': 'other'}.get((OR.payload_tree(snap0, e).get('') or 'o')[0], 'none')
        if refused_seen:
            break           # after a refusal nothing is specified
        want = OR.payload_tree(snap0, e)
        if dk == 'absent':
            have = Wd.subtree(snap1, loc)
            if not Wd.same_tree(want, have) or not OR.pair_gone(snap1, e):
                res.append(('C06/free-destination-not-restored/%s' % tk, 'entry %r selected, destination free, but not restored properly (exit %s) stderr %s'
                            % (e, r.exit, r.errs[-300:])))
            else:
                st.probes['restored-to-free-destination'] += 1
                if pos < len(order) - 1:
                    st.probes['restored-before-refusal'] += 1
            continue
        st.distinct.add((tk, dk, overwrite, min(pos, 2)))
        st.probes['dest-' + ('dangling' if dk == 'symlink->nothing' else 'symlink-dir' if dk == 'symlink->dir' else 'dir' if dk == 'dir' else 'file')] += 1
        if not overwrite:
            refused_seen = True
            same_dest = Wd.same_tree(Wd.subtree(snap0, loc), Wd.subtree(snap1, loc))
            if not same_dest:
                res.append(('C06/clobbered-without-overwrite/trashed=%s/dest=%s' % (tk, dk),
                            'destination %r (%s) existed, no --overwrite, but it changed: %r -> %r (exit %s)\nstderr: %s'
                            % (loc, dk, Wd.subtree(snap0, loc), Wd.subtree(snap1, loc), r.exit, r.errs[-300:])))
            if not OR.pair_intact(snap0, snap1, e):
                res.append(('C06/refused-but-pair-changed/trashed=%s/dest=%s' % (tk, dk),
                            'destination %r existed, no --overwrite, but the trashed pair %r changed' % (loc, e)))
            if r.exit == 0:
                res.append(('C06/refusal-exit0/trashed=%s/dest=%s' % (tk, dk), 'destination %r (%s) existed, no --overwrite, exit status 0; stderr %r' % (loc, dk, r.errs[-200:])))
            elif same_dest:
                st.probes['refused'] += 1
        else:
            if dk == 'dir':
                refused_seen = True      # unspecified: stop judging
                continue
            have = Wd.subtree(snap1, loc)
            if not Wd.same_tree(want, have):
                res.append(('C06/overwrite-did-not-replace/trashed=%s/dest=%s' % (tk, dk),
                            '--overwrite: destination %r (%s) should now hold the restored %s, but holds %r (exit %s)\nstderr: %s'
                            % (loc, dk, tk, have, r.exit, r.errs[-300:])))
                refused_seen = True
            elif not OR.pair_gone(snap1, e):
                res.append(('C06/overwrite-pair-left/trashed=%s/dest=%s' % (tk, dk), '--overwrite restored %r but the pair is still in the trash' % (e,)))
            else:
                st.probes['overwritten'] += 1
            # a symlink's former target must be untouched
            if dk.startswith('symlink->') and dk != 'symlink->nothing':
                t = ML.resolve(snap0, loc)
                if t and not Wd.same_tree(Wd.subtree(snap0, t), Wd.subtree(snap1, t)):
                    res.append(('C06/overwrite-touched-link-target/trashed=%s/dest=%s' % (tk, dk),
                                '--overwrite on %r (%s): the former target %r changed: %r -> %r' % (loc, dk, t, Wd.subtree(snap0, t), Wd.subtree(snap1, t))))
    seen, out = set(), []
    for s, m in res:
        if s not in seen:
            seen.add(s)
            out.append((s, m))
    return out
