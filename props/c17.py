"""C17 - under file-system errors trash-put terminates, falls back, and
reports honestly.  Engine F."""
from __future__ import annotations

import copy
import errno as E
import posixpath
import random

from engines import fault as EF
from gen import base as G
from gen import trashgen as TG
from model import layout as ML
from oracles import put as OP
from oracles import readers as OR
from sim import world as Wd
from sim.vkernel import K

ID = 'C17'
TIER = 'quick'
LEVEL = 'fault_enumeration'
EVAL_PROBE = 'faulted-runs'
ENGINE = 'fault'
BUDGET = {'quick': 160, 'thorough': 5000}
WALL = {'quick': 90, 'thorough': 1800}
RULE = ('scenarios: trash-put of 1-2 entries with home, .Trash/$uid and .Trash-$uid candidates, first use and collisions; from the fault-free '
        'trace: one single-shot fault per op x applicable errno (all errnos for mutating ops; for reads one sampled errno in the quick tier, all in the thorough tier), persistent conditions '
        '(volume read-only / full / over quota, directory not writable, I/O errors below a directory, immutable entry) and 25 (quick) / 120 (thorough) adaptive pairs of '
        'single shots; each faulted run: termination within the step cap, then the C01 frame oracle with two narrow relaxations, and exit '
        'status/diagnostic consistent with the final state; evaluations = faulted runs; distinct = (op kind, errno, outcome) triples')
ASSUMPTIONS = ['an injected errno is a clean failure: the failing call has no effect (a short write is the exception: it writes a part and says so)', 'ENOENT / ESTALE are injected on mkdir, exclusive create and rename (a network or FUSE file system, a directory removed and recreated by somebody else), not on lookups - there they simply mean that the entry is not there; EEXIST is not injected']
PROBES = ['faulted-runs', 'fault-fired', 'fell-through-to-next-candidate', 'retried-other-name', 'cleanup-unlink-ran', 'failure-reported',
          'trashed-despite-fault', 'pairs', 'conditions', 'step-cap-hit']
TECHNIQUE = 'deterministic simulation with errno injection enumerated over every op of seeded scenarios (single shots, persistent conditions, pairs); termination + frame oracle'
LEVEL_TEXT = 'single-fault positions are enumerated completely per sampled scenario and errno class; conditions and pairs are derived from the trace; scenarios sampled'
LEVEL_NOTE = 'trusted: fault rule matcher in the vkernel, C01 frame oracle'


def gen(rng):
    L = G.make_layout(rng, nvol=rng.choice([0, 1, 1, 2]), trash_states=[rng.choice(['absent', 'sticky', 'sticky'])] * 3,
                      alt_states=[rng.choice(['absent', 'dir'])] * 3, xdg=rng.choice(['unset', 'set']), nested=False,
                      home_mode=rng.choice(['root', 'homevol']))
    steps = L['steps']
    home, uid, env = L['home'], L['uid'], dict(L['env'])
    args = []
    for i in range(rng.choice([1, 1, 2])):
        vol = rng.choice(['/'] + L['vols'])
        wd = L['work'][vol]
        aux = home + '/aux' if vol == '/' else vol + '/aux'
        # (long names: '<name>.trashinfo' exceeds NAME_MAX, so the kernel itself answers ENAMETOOLONG until the name is cut enough)
        p = wd + '/' + rng.choice(['foo', 'foo', 'bar baz', 'bar baz', 'ü', 'ü', 'é' * 125, '日' * 84, 'x' * 250, 'é' * 5 + 'r' * 240]) + str(i)
        G.make_entry(rng, p, rng.choice(['file', 'dir', 'dir', 'deepdir', 'link_file', 'link_dangling', 'empty']), steps, aux)
        if rng.random() < 0.2:
            # owned by ids without passwd / group entry (whatever describes the entry in a diagnostic must cope)
            steps.append(['own', p, rng.choice([54321, 0]), rng.choice([54321, 54322])])
            if rng.random() < 0.5:
                steps.append(['own', wd, 54321, 54321])
        args.append(p)
    if rng.random() < 0.4:
        for a in args:
            nm = posixpath.basename(a)
            if len(nm.encode('utf-8')) > 240:
                continue
            G.add_trashed(steps, G.home_trash_of(env), nm, TG.pct(home + '/old/' + nm), '2020-01-01T00:00:00', 'file', tag='old')
    elif rng.random() < 0.3:
        # a payload WITHOUT info under the very name (what an interrupted purge or put leaves behind): it occupies the name -
        # whatever the probe for it is answered, it is not written over
        for a in args:
            nm = posixpath.basename(a)
            if len(nm.encode('utf-8')) > 240:
                continue
            ht_ = G.home_trash_of(env)
            steps.append(['d', ht_ + '/info', 0o700])
            steps.append(['d', ht_ + '/files', 0o700])
            steps.append(rng.choice([['f', ht_ + '/files/' + nm, 'PRECIOUS payload without info', 0o644], ['l', ht_ + '/files/' + nm, 'nowhere-at-all']]))
    opts = []
    if rng.random() < 0.25:
        # -f only excuses arguments that do not exist: an entry that is there and could not be trashed is still a failure
        opts.append(rng.choice(['-f', '-f', '--force', '-v']))
    if rng.random() < 0.15:
        opts.append('--home-fallback')
        env['TRASH_ENABLE_HOME_FALLBACK'] = '1'
    if L['vols'] and rng.random() < 0.25:
        # cross-volume scenario: the volume trash directories are unusable, so the (twice
        # enabled) home fallback is what trashes the entry - every step of copy+delete is an op
        steps[:] = [st_ for st_ in steps if not (st_[1].endswith('/.Trash') or '/.Trash-' in st_[1] or '/.Trash/' in st_[1])]
        for v in L['vols']:
            steps.append(['f', v + '/.Trash-%d' % uid, 'blocker', 0o600])
        if '--home-fallback' not in opts:
            opts.append('--home-fallback')
        env['TRASH_ENABLE_HOME_FALLBACK'] = '1'
        args[:] = [a for a in args if not a.startswith(home)] or args
    return {
        'world': {'mounts': L['mounts'], 'steps': steps},
        'procs': [{'argv': ['trash-put'] + opts + ['--'] + args, 'env': env, 'cwd': '/', 'uid': uid}],
        'dirsalt': rng.randrange(1 << 30),
        'fseed': rng.randrange(1 << 30),
    }


def one_run(sim, case, faults, st, named_fn, files, mounts, maxops):
    c = dict(case, faults=faults)
    sim.setup(c)
    before = sim.snap()
    named = named_fn(before)
    spec = dict(case['procs'][0], max_ops=maxops)
    r = sim.run(spec)
    st.sims += 1
    st.ops += r.nops
    after = sim.snap()
    return before, named, r, after, list(K.fired)


def judge_run(before, named, r, after, fired, sim, mounts, desc, st):
    """-> list of (clause, message)"""
    out = []
    if r.exit == -99:
        st.probes['step-cap-hit'] += 1
        return [('non-termination', 'trash-put did not terminate within %d ops (still retrying: last ops %r)'
                 % (r.nops, [(ev[2], ev[3], ev[6]) for ev in r.trace[-4:]]))]
    outs, probs = OP.judge(sim.root, before, after, named, mounts, SKEL['dirs'])
    errs = r.errs
    # relaxations
    faulted_paths = set()
    for ev in r.trace:
        # the implementation's own clean-up (existence probe + unlink) was hit by a fault
        if isinstance(ev[6], str) and ev[6].startswith('FAULT:') and ev[2] in ('remove', 'unlink', 'rmdir'):
            faulted_paths.add(ev[3])
    for clause, detail, nm in probs:
        if clause in ('stray-info',) or clause.startswith('half-trashed:stray-info'):
            # tolerated only if the implementation's own unlink of that info was faulted
            if any(p.endswith('.trashinfo') for p in faulted_paths):
                continue
        if clause in ('orphan-payload',) and any('/files/' in p for p in faulted_paths):
            continue
        out.append((clause, detail if nm is None else 'argument %r: %s' % (nm.arg, detail)))
    anyfail = False
    for oc in outs:
        nm = oc.named
        if oc.state == 'trashed':
            if OP.reported_failed(errs, nm.arg):
                out.append(('reported-failure-but-trashed', 'argument %r was trashed but a failure was printed for it' % nm.arg))
        elif oc.state == 'untouched':
            anyfail = True
            if not OP.reported_failed(errs, nm.arg) and r.exc is None:
                out.append(('silent-failure', 'argument %r was not trashed and no diagnostic names it (exit %s)' % (nm.arg, r.exit)))
    if r.exc is not None:
        # an uncaught exception is a (crude) failure report: non-zero exit; the state
        # is judged like any other outcome.  That it names no argument is C16's business.
        st.probes['traceback-exit'] += 1
    elif anyfail and r.exit == 0:
        out.append(('exit0-but-not-trashed', 'an argument was not trashed but the exit status is 0'))
    elif not anyfail and r.exit != 0 and all(o.state == 'trashed' for o in outs):
        out.append(('nonzero-but-all-trashed', 'every argument was trashed but the exit status is %s' % r.exit))
    return out


def check(sim, case, st):
    spec = case['procs'][0]
    from props.c01 import parse_args
    files = parse_args(spec['argv'])
    mounts = OR.mounts_of(case)
    cwd = spec.get('cwd', '/')
    SKEL['dirs'] = OP.candidate_skeleton(spec.get('env', {}), spec.get('uid', 1000), mounts)

    def named_fn(before):
        return [OP.name_entry(sim.root, cwd, a, before, mounts) for a in files]
    # fault-free run
    before, named, r0, after, _f = one_run(sim, case, [], st, named_fn, files, mounts, 20000)
    if OP.related(named) or any(nm.kind != 'entry' for nm in named) or r0.exit != 0:
        return []
    base_ops = r0.nops
    maxops = max(2000, 50 * base_ops)
    rng = random.Random(case.get('fseed', 1))
    shots = EF.single_shots(r0.trace, rng, per_read=1 if TIER == 'quick' else 5)
    # conditions are expressed on resolved paths: resolve against a freshly built world
    sim.setup(case)
    conds = EF.conditions(r0.trace, mounts, lambda p: K.real_resolved_parent(p))
    plans = [([f], d) for f, d in shots] + [([f], d) for f, d in conds]
    npairs = (25 if TIER == 'quick' else 120) if len(shots) >= 2 else 0
    if case.get('pinned'):
        plans = [(case['pinned']['faults'], tuple(case['pinned']['desc']))]
    res = []
    todo = list(plans)
    pair_budget = [0 if case.get('pinned') else npairs]
    while todo or pair_budget[0] > 0:
        if not todo:
            # adaptive pair: run shot A, then pick B among the ops that the
            # A-faulted run issues after A fired
            pair_budget[0] -= 1
            fa, da = rng.choice(shots)
            _b, _n, ra, _a, fired_a = one_run(sim, case, [fa], st, named_fn, files, mounts, maxops)
            if not fired_a:
                continue
            pos = max(g for _i, g in fired_a)
            later = [ev for ev in ra.trace if ev[0] > pos]
            cands = EF.single_shots(ra.trace, rng)
            cands = [(f, d) for f, d in cands if any(ev[2] == f['op'] and ev[3] == f['path'] for ev in later)]
            if not cands:
                continue
            fb, db = rng.choice(cands)
            # the k-th occurrence must lie after A: take the last occurrence
            fb = dict(fb, k=max(0, sum(1 for ev in ra.trace if ev[2] == fb['op'] and ev[3] == fb['path']) - 1))
            todo.append(([fa, fb], ('pair', da[0] + ':' + da[1], db[0] + ':' + db[1])))
            continue
        faults, desc = todo.pop(0)
        b, named, r, a, fired = one_run(sim, case, faults, st, named_fn, files, mounts, maxops)
        st.probes['faulted-runs'] += 1
        if desc[0] == 'pair':
            st.probes['pairs'] += 1
        elif desc[0] == 'cond':
            st.probes['conditions'] += 1
        if not fired:
            continue
        st.probes['fault-fired'] += 1
        for i, _g in fired:
            f = faults[i]
            st.faults[('short_write' if f.get('short') else E.errorcode.get(f.get('errno'), '?')) if f['kind'] == 'shot' else f['what']] += 1
        probs = judge_run(b, named, r, a, fired, sim, mounts, desc, st)
        # probes
        if any(ev[2] in ('remove', 'unlink') and (ev[3] or '').endswith('.trashinfo') for ev in r.trace):
            st.probes['cleanup-unlink-ran'] += 1
        if sum(1 for ev in r.trace if ev[2] == 'open_w' and (ev[3] or '').endswith('.trashinfo')) > len(files):
            st.probes['retried-other-name'] += 1
        if 'cannot trash' in r.errs:
            st.probes['failure-reported'] += 1
        elif r.exit == 0:
            st.probes['trashed-despite-fault'] += 1
        tds = set(posixpath.dirname(posixpath.dirname(ev[3])) for ev in r.trace if ev[2] == 'open_w' and (ev[3] or '').endswith('.trashinfo'))
        if len(tds) > 1:
            st.probes['fell-through-to-next-candidate'] += 1
        outcome = 'ok' if not probs else probs[0][0]
        if desc[0] == 'pair':
            key = ('pair', desc[1], desc[2], outcome)
        else:
            key = (desc[0], desc[1], outcome)
        st.distinct.add(key)
        # signature by root cause: clause + the ops (not the errnos) of the faults that fired
        fired_ops = []
        for ev in r.trace:
            if isinstance(ev[6], str) and ev[6].startswith('FAULT:'):
                tgt = 'info' if (ev[3] or '').endswith('.trashinfo') else ('files' if '/files/' in (ev[3] or '') or '/files/' in (ev[4] or '') else 'other')
                k = '%s@%s' % (ev[2], tgt)
                if k not in fired_ops:
                    fired_ops.append(k)
        xdev = any(ev[2] == 'rename' and ev[6] == 'E:EXDEV' for ev in r.trace)
        for clause, msg in probs:
            if xdev:
                sig = 'C17/%s/xdev-copy-fallback/%s' % (clause, '+'.join(fired_ops[:2]))
            elif desc[0] == 'cond':
                sig = 'C17/%s/cond:%s/%s' % (clause, desc[1], '+'.join(fired_ops[:2]))
            else:
                sig = 'C17/%s/%s' % (clause, '+'.join(fired_ops[:2]))
            res.append((sig, '%s\nfault: %r\nargv %r exit %s\nstderr: %s' % (msg, faults, spec['argv'], r.exit, r.errs[-500:]), (faults, desc)))
    # each violation gets its own replayable case (the fault list is part of the case)
    seen, out = set(), []
    for s, m, faults in res:
        if s not in seen:
            seen.add(s)
            out.append((s, m))
    PINS.clear()
    PINS.update(dict((s, f) for s, _m, f in res))
    return out


PINS = {}
SKEL = {'dirs': set()}


def pin(case, sig):
    """narrow a scenario to the one fault plan that produced ``sig`` (called
    right after check() found it, before shrinking)"""
    if sig in PINS:
        faults, desc = PINS[sig]
        c = copy.deepcopy(case)
        c['pinned'] = {'faults': [dict((k, v) for k, v in f.items() if not k.startswith('_')) for f in faults], 'desc': list(desc)}
        return c
    return case
