"""C08 - an insecure shared $topdir/.Trash is never used, for writing, reading
or purging (all five commands)."""
from __future__ import annotations

import posixpath

from gen import base as G
from gen import trashgen as TG
from model import bag as MB
from model import layout as ML
from oracles import readers as OR
from sim import world as Wd

ID = 'C08'
LEVEL = 'exploration'
ENGINE = 'history'
BUDGET = {'quick': 8000, 'thorough': 100000}
WALL = {'quick': 45, 'thorough': 1500}
RULE = ('(in 15 % of the worlds some listed volumes are same-file-system bind mounts that os.path.ismount() denies - reader commands only; in 35 % of the worlds the volume mounted at / has a .Trash of its own, in any of the states) one command per case (put, list, restore with every index, empty with/without DAYS and --dry-run, rm *) on a world where each '
        'volume has a generated .Trash state (sticky dir, non-sticky dir, symlink to sticky / non-sticky dir, regular file, dangling, '
        'absent) with a populated .Trash/$uid where the state allows, plus populated .Trash-$uid and home trash; non-trivial = some '
        'volume has an insecure .Trash with a populated $uid directory; in 12 % of the worlds with a sticky .Trash a multi-argument trash-put during '
        'which .Trash stops being secure between two arguments (an environment event at a prompt of -i: chmod, replaced by a symlink, removed; or '
        '.Trash itself given as an argument); distinct = (command, sorted .Trash states)')
ASSUMPTIONS = []
PROBES = ['root-volume-dot-Trash', 'listed-volume-is-a-bind-mount', 'insecure-populated', 'secure-used-by-list', 'secure-used-by-put', 'secure-used-by-restore', 'secure-purged', 'put-fell-through-to-alt',
          'list-reported-skip', 'cmd-trash-put', 'cmd-trash-list', 'cmd-trash-restore', 'cmd-trash-empty', 'cmd-trash-rm',
          'dot-Trash-becomes-insecure-between-arguments', 'later-argument-trashed']
TECHNIQUE = 'deterministic simulation of all five commands over the lattice of .Trash states; frame oracle on $topdir/.Trash/$uid plus output checks'
LEVEL_TEXT = 'seeded exploration of volume layouts x .Trash states x commands; secure states are checked to be used so the check cannot pass vacuously'
LEVEL_NOTE = 'trusted: model/bag.py top_state (spec rule: directory, not a symlink, sticky), snapshot function'

STATES = ['sticky', 'nonsticky', 'nonsticky_sgid', 'nonsticky_suid', 'link_sticky', 'link_nonsticky', 'file', 'dangling', 'absent']


def gen(rng):
    nvol = rng.choice([1, 1, 2, 3])
    ts = [rng.choice(STATES) for _ in range(4)]
    L = G.make_layout(rng, nvol=nvol, trash_states=ts, alt_states=[rng.choice(['absent', 'dir', 'dir']) for _ in range(4)],
                      xdg='unset', nested=False)
    steps = L['steps']
    uid = L['uid']
    home = L['home']
    k = 0
    if rng.random() < 0.2:
        # the top directory of a volume is itself world-writable and sticky (a tmpfs like /tmp or /dev/shm, a shared scratch disk):
        # the rules are about $topdir/.Trash, not about $topdir
        for v in L['vols']:
            if rng.random() < 0.7:
                steps.append(['d', v, 0o1777])
    for v in L['vols']:
        s = L['trash'][v]['top']
        if s in ('sticky', 'nonsticky', 'nonsticky_sgid', 'nonsticky_suid', 'link_sticky', 'link_nonsticky'):
            t = v + '/.Trash/%d' % uid
            for j in range(rng.randint(1, 2)):
                k += 1
                loc = L['work'][v] + '/shared%d' % k
                G.add_trashed(steps, t, 'shared%d' % k, TG.pct(loc[len(v) + 1:]), '2020-02-0%dT01:02:03' % (k % 9 + 1), rng.choice(['file', 'dir']), tag='s%d' % k)
            if rng.random() < 0.3:
                steps.append(['f', t + '/files/orph%d' % k, 'o', 0o644])
        if L['trash'][v]['alt'] == 'dir':
            k += 1
            loc = L['work'][v] + '/alt%d' % k
            G.add_trashed(steps, v + '/.Trash-%d' % uid, 'alt%d' % k, TG.pct(loc[len(v) + 1:]), '2020-03-01T01:02:03', 'file', tag='a%d' % k)
        steps.append(['f', L['work'][v] + '/victim', 'to be trashed', 0o644])
    rootvictim = None
    if rng.random() < 0.35:
        # the volume mounted at / has a shared .Trash of its own (the rules are the same there)
        rs = rng.choice([x for x in STATES if x != 'absent'])
        t0 = '/.Trash'
        if rs == 'sticky':
            steps.append(['d', t0, rng.choice([0o1777, 0o1777, 0o3777, 0o5777])])
        elif rs == 'nonsticky':
            steps.append(['d', t0, 0o777])
        elif rs == 'nonsticky_sgid':
            steps.append(['d', t0, 0o2775])
        elif rs == 'nonsticky_suid':
            steps.append(['d', t0, 0o4755])
        elif rs in ('link_sticky', 'link_nonsticky'):
            steps.append(['d', '/.realTrash', 0o1777 if rs == 'link_sticky' else 0o777])
            steps.append(['l', t0, '.realTrash'])
        elif rs == 'file':
            steps.append(['f', t0, 'not a dir', 0o644])
        elif rs == 'dangling':
            steps.append(['l', t0, 'nothing-here'])
        if rs in ('sticky', 'nonsticky', 'nonsticky_sgid', 'nonsticky_suid', 'link_sticky', 'link_nonsticky'):
            for j in range(rng.randint(1, 2)):
                k += 1
                G.add_trashed(steps, '/.Trash/%d' % uid, 'rootshared%d' % k, TG.pct('srv/rootshared%d' % k), '2020-05-0%dT01:02:03' % (k % 9 + 1),
                              rng.choice(['file', 'dir']), tag='r%d' % k)
        steps.append(['f', '/srv/victim', 'to be trashed from the root volume', 0o644])
        rootvictim = '/srv/victim'
    G.add_trashed(steps, G.home_trash_of(L['env']), 'homeent', TG.pct(home + '/w/homeent'), '2020-04-01T01:02:03', 'file', tag='h')
    cmd = rng.choice(['trash-put', 'trash-list', 'trash-restore', 'trash-restore', 'trash-empty', 'trash-empty', 'trash-rm'])
    stdin = ''
    sticky_vols = [v for v in L['vols'] if L['trash'][v]['top'] == 'sticky']
    if sticky_vols and rng.random() < 0.12:
        # $topdir/.Trash is fine when trash-put starts and stops being so between two arguments of the same run: somebody
        # strips the sticky bit / replaces it by a symlink / removes it while the user is asked about the next argument
        # (-i), or .Trash itself is one of the arguments.  What is trashed afterwards must not go under .Trash/$uid.
        v = rng.choice(sticky_vols)
        wd = L['work'][v]
        for nm in ('before', 'after1', 'after2'):
            steps.append(['f', wd + '/' + nm, 'content of ' + nm, 0o644])
        how = rng.choice(['chmod', 'chmod', 'symlink', 'remove', 'argument'])
        if how == 'argument':
            argv = ['trash-put', wd + '/before', v + '/.Trash', wd + '/after1', wd + '/after2']
        else:
            argv = ['trash-put', '-i', wd + '/before', wd + '/after1', wd + '/after2']
        return {
            'world': {'mounts': L['mounts'], 'steps': steps},
            'procs': [{'argv': argv, 'env': L['env'], 'cwd': '/', 'uid': uid, 'stdin': ''}],
            'dirsalt': rng.randrange(1 << 30),
            'midrun': {'how': how, 'volume': v, 'before_prompt': rng.choice([2, 2, 3])},
        }
    binds = []
    if L['vols'] and rng.random() < 0.15:
        # some of the listed volumes are bind mounts of a directory of the enclosing file system (mount --bind, container volumes,
        # systemd BindPaths=): in the partition listing, yet os.path.ismount() denies them.  The readers visit them all the same.
        binds = [v for v in L['vols'] if rng.random() < 0.7] or [L['vols'][0]]
        cmd = rng.choice(['trash-list', 'trash-restore', 'trash-restore', 'trash-empty', 'trash-rm'])
    if cmd == 'trash-put':
        argv = [cmd] + rng.choice([[], ['-v']]) + [rng.choice([L['work'][v_] + '/victim' for v_ in L['vols']] + ([rootvictim] * 2 if rootvictim else []))]
    elif cmd == 'trash-list':
        argv = [cmd]
    elif cmd == 'trash-restore':
        argv = [cmd, '/'] + rng.choice([[], ['--sort=path'], ['--overwrite'], ['--trash-dir', ''], ['--trash-dir=']])
        stdin = '0-%d\n' % (k + 3)     # replaced by the real count in check()
    elif cmd == 'trash-empty':
        argv = [cmd] + rng.choice([[], [], ['0'], ['30'], ['--dry-run'], ['-f']])
    else:
        argv = [cmd, rng.choice(['*', 'shared*', '/*'])]
    return {
        'world': dict({'mounts': L['mounts'], 'steps': steps}, **({'binds': binds} if binds else {})),
        'procs': [{'argv': argv, 'env': L['env'], 'cwd': '/', 'uid': uid, 'stdin': stdin}],
        'dirsalt': rng.randrange(1 << 30),
    }


def check_midrun(sim, case, st):
    from sim.vkernel import environment      # the environment acts through the real system calls, not through the seam
    sim.setup(case)
    spec = dict(case['procs'][0])
    argv = spec['argv']
    mr = case['midrun']
    v, how = mr['volume'], mr['how']
    uid = spec.get('uid', 1000)
    mounts = OR.mounts_of(case)
    snap0 = sim.snap()
    top = v + '/.Trash'
    if MB.top_state(snap0, v) != 'ok':
        return []
    calls = [0]
    changed_at = [None]

    def user(out):
        calls[0] += 1
        if calls[0] == mr['before_prompt'] and changed_at[0] is None:
            real = sim.root + top
            with environment() as O:
                if how == 'chmod':
                    O.chmod(real, 0o777)
                elif how == 'symlink':
                    O.rename(real, real + '.moved')
                    O.symlink('.Trash.moved', real)
                elif how == 'remove':
                    Wd.build(sim.root, {'steps': [['rm', top]]})
            changed_at[0] = calls[0]
        return 'y\n'
    if how == 'argument':
        r = sim.run(spec)
        later = argv[argv.index(top) + 1:]
    else:
        r = sim.run(spec, stdin_fn=user)
        files = [a for a in argv[1:] if not a.startswith('-')]
        later = files[mr['before_prompt'] - 1:] if changed_at[0] is not None else []
    st.sims += 1
    st.ops += r.nops
    snap1 = sim.snap()
    st.probes['cmd-trash-put'] += 1
    st.probes['dot-Trash-becomes-insecure-between-arguments'] += 1
    st.distinct.add(('midrun', how, mr['before_prompt']))
    res = []
    # where did the later arguments go?  (contents are unique)
    for a in later:
        content = ('content of ' + posixpath.basename(a)).encode()
        for k, val in snap1.items():
            if k in snap0 or val[0] != 'f' or '/files/' not in k:
                continue
            try:
                data = Wd.read_bytes(sim.root, k)
            except OSError:
                continue
            if data == content:
                st.probes['later-argument-trashed'] += 1
                if k.startswith(top + '/') or k.startswith(top + '.moved/'):
                    res.append(('C08/put-used-dot-Trash-after-it-became-insecure/%s' % how,
                                'trash-put stored %r at %r although %s stopped being a sticky real directory before that argument was handled '
                                '(how: %s; argv %r, exit %s)\nstderr: %s' % (a, k, top, how, argv, r.exit, r.errs[-400:])))
    if how == 'argument' and top in snap1 and MB.top_state(snap1, v) != 'ok' and any(k.startswith(top + '/') for k in snap1):
        res.append(('C08/put-recreated-dot-Trash/%s' % how, 'after the run %s exists again as %s and is populated (argv %r)' % (top, MB.top_state(snap1, v), argv)))
    seen, out = set(), []
    for sg, m in res:
        if sg not in seen:
            seen.add(sg)
            out.append((sg, m))
    return out


def check(sim, case, st):
    if case.get('midrun'):
        return check_midrun(sim, case, st)
    sim.setup(case)
    spec = dict(case['procs'][0])
    argv = spec['argv']
    cmd = posixpath.basename(argv[0])
    env, uid = spec.get('env', {}), spec.get('uid', 1000)
    mounts = OR.mounts_of(case)
    snap0 = sim.snap()
    insecure = []      # (volume, state, real path of the .Trash/$uid directory)
    secure = []
    for m in mounts:
        stt = MB.top_state(snap0, m)
        t = (m if m != '/' else '') + '/.Trash/%d' % uid
        rt = ML.resolve(snap0, t)
        if rt is None or not ML.is_dir(snap0, rt):
            continue
        populated = bool(ML.infos(snap0, rt) or ML.payloads(snap0, rt))
        if stt == 'ok':
            if populated:
                secure.append((m, stt, rt, t))
        elif populated:
            insecure.append((m, stt, rt, t))
    if cmd == 'trash-restore':
        # reply: every index of whatever is listed
        pre = sim.run(dict(spec, stdin=''))
        st.sims += 1
        lst = OR.parse_restore_listing(pre.outs)
        n = len(lst) if lst else 0
        sim.setup(case)
        snap0 = sim.snap()
        spec['stdin'] = ('0-%d\n' % (n - 1)) if n else '\n'
    locs_of = {}
    for m, stt, rt, t in insecure + secure:
        ents = MB.entries_of(snap0, OR.reader(sim), t, m, 'top')
        locs_of[t] = [e.location for e in ents if e.location]
    r = sim.run(spec)
    st.sims += 1
    st.ops += r.nops
    snap1 = sim.snap()
    st.probes['cmd-' + cmd] += 1
    res = []
    states = tuple(sorted(MB.top_state(snap0, m) for m in mounts if m != '/'))
    if '/.Trash' in snap0:
        st.probes['root-volume-dot-Trash'] += 1
    if case['world'].get('binds'):
        st.probes['listed-volume-is-a-bind-mount'] += 1
    if insecure:
        st.probes['insecure-populated'] += 1
        st.distinct.add((cmd, tuple(a for a in argv[1:] if a.startswith('-') or a.isdigit()), tuple(sorted(s for _m, s, _r, _t in insecure))))
    for m, stt, rt, t in insecure:
        b, a = Wd.subtree(snap0, rt), Wd.subtree(snap1, rt)
        if not Wd.same_tree(b, a):
            res.append(('C08/insecure-dir-modified/%s/%s' % (cmd, stt),
                        '%s changed %s although %s/.Trash is %s: removed %r added %r (argv %r)' % (
                            cmd, t, m, stt, sorted(set(b) - set(a))[:5], sorted(set(a) - set(b))[:5], argv)))
        locs = locs_of[t]
        if cmd == 'trash-list':
            for loc in locs:
                if any(ln.endswith(' ' + loc) for ln in OR.phys_lines(r.outs)):
                    res.append(('C08/list-shows-insecure/%s' % stt, 'trash-list shows %r stored under %s (%s/.Trash is %s)' % (loc, t, m, stt)))
                    break
            if t not in r.errs:
                res.append(('C08/list-silent-about-skip/%s' % stt, 'trash-list does not report the skipped directory %s on stderr (%s/.Trash is %s); stderr: %r' % (t, m, stt, r.errs[:300])))
            else:
                st.probes['list-reported-skip'] += 1
        if cmd == 'trash-restore':
            lst = OR.parse_restore_listing(r.outs) or []
            for loc in locs:
                if any(p == loc for _i, _d, p in lst):
                    res.append(('C08/restore-offers-insecure/%s' % stt, 'trash-restore offers %r stored under %s (%s/.Trash is %s)' % (loc, t, m, stt)))
                    break
    if cmd == 'trash-put':
        victim = argv[-1]
        vol = ML.volume_of(mounts, victim)
        stt = MB.top_state(snap0, vol)
        if victim not in snap1 and r.exit == 0:
            top = (vol if vol != '/' else '') + '/.Trash/%d' % uid
            rt = ML.resolve(snap1, top)
            landed_top = bool(rt) and any(k.startswith(rt + '/files/') for k in snap1 if k not in snap0)
            if stt != 'ok' and stt != 'absent' and landed_top:
                res.append(('C08/put-used-insecure/%s' % stt, 'trash-put stored %r under %s although %s/.Trash is %s' % (victim, top, vol, stt)))
            if stt == 'ok' and landed_top:
                st.probes['secure-used-by-put'] += 1
            alt = (vol if vol != '/' else '') + '/.Trash-%d' % uid
            ra = ML.resolve(snap1, alt)
            if stt not in ('ok',) and ra and any(k.startswith(ra + '/files/') for k in snap1 if k not in snap0):
                st.probes['put-fell-through-to-alt'] += 1
        elif stt not in ('ok', 'absent') and r.exit != 0:
            alt_state = snap0.get((vol if vol != '/' else '') + '/.Trash-%d' % uid)
            if alt_state is None or alt_state[0] == 'd':
                res.append(('C08/put-did-not-fall-through/%s' % stt, 'trash-put failed (exit %s) instead of using %s/.Trash-%d; stderr %s' % (r.exit, vol, uid, r.errs[-400:])))
    # non-vacuity: secure directories are used
    for m, stt, rt, t in secure:
        locs = locs_of[t]
        if cmd == 'trash-list' and locs and all(any(ln.endswith(' ' + loc) for ln in OR.phys_lines(r.outs)) for loc in locs):
            st.probes['secure-used-by-list'] += 1
        if cmd == 'trash-restore' and locs:
            lst = OR.parse_restore_listing(r.outs) or []
            if all(any(p == loc for _i, _d, p in lst) for loc in locs):
                st.probes['secure-used-by-restore'] += 1
        if cmd in ('trash-empty', 'trash-rm') and '--dry-run' not in argv and not ML.infos(snap1, rt) and ML.infos(snap0, rt):
            st.probes['secure-purged'] += 1
    seen, out = set(), []
    for s, m in res:
        if s not in seen:
            seen.add(s)
            out.append((s, m))
    return out
