"""C12 - trash-rm removes exactly the entries whose original name matches."""
from __future__ import annotations

from gen import base as G
from gen import trashgen as TG
from model import glob as MG
from oracles import readers as OR

ID = 'C12'
LEVEL = 'exploration'
ENGINE = 'history'
BUDGET = {'quick': 12000, 'thorough': 200000}
WALL = {'quick': 45, 'thorough': 1500}
RULE = ('one trash-rm PATTERN per case over a multi-volume trash with case variants, metacharacter names and equal base '
        'names in several directories/volumes, in half of the cases with something new (symlink to a sibling with another pool name, dangling link, file, directory) at some recorded original locations; pattern grammar: literals, *, ?, [set], [a-z], [!set], leading / (full path); '
        'non-trivial = pattern matches some but not all entries; distinct = (pattern shape, #matching, #entries)')
ASSUMPTIONS = ['unterminated brackets and the empty pattern are not generated (unspecified by the property)',
               'the matching law itself is a pure function; the simulator contributes the multi-volume on-disk state it is applied to']
PROBES = ['trash-dir-with-hundreds-of-entries', 'matched', 'unmatched', 'full-path-pattern', 'bracket-pattern', 'volume-trash-match', 'case-variant-kept',
          'same-basename-multi-dir', 'original-location-occupied-now', 'payload-that-cannot-be-removed-completely']
TECHNIQUE = 'deterministic simulation of trash-rm on generated multi-volume trash; removed set compared with an independent glob matcher'
LEVEL_TEXT = 'seeded exploration of pattern x name-set; set equality between removed pairs and the model matcher; survivors byte-identical'
LEVEL_NOTE = 'trusted: model/glob.py (backtracking matcher written from the fnmatch documentation), model/bag.py'

NAMES = ['notes', 'notes.trashinfo', 'x.trashinfo.trashinfo', '.trashinfo', 'foo', 'Foo', 'FOO', 'foobar', 'fo', 'f', 'bar', 'a*b', 'a?b', '[x]', 'a[b', 'x]y', 'a-b', '!bang', 'file.txt',
         'file.TXT', 'file.txt.bak', '.hidden', 'with space', 'new\nline', 'a', 'b', 'ab', 'abc', 'é', '*', '?', '-', 'a!b', '~', '~root', 'My%20File.pdf', 'a%2Ab', 'x%5B1%5D', '100%25']


def shape(p):
    s = ''
    for c in p:
        s += c if c in '*?[]!-/' else 'x'
    out = ''
    for c in s:
        if not (c == 'x' and out.endswith('x')):
            out += c
    return out


def gen_pattern(rng, names, home):
    nm = rng.choice(names)
    r = rng.random()
    if r < 0.2:
        return nm if '[' not in nm else 'foo'
    if r < 0.3:
        return '*'
    if r < 0.4:
        return nm[:rng.randint(0, len(nm))].replace('[', '?') + '*'
    if r < 0.5:
        return '*' + nm[rng.randint(0, len(nm)):].replace('[', '?')
    if r < 0.6:
        return ''.join(c if (rng.random() < 0.6 and c != '[') else '?' for c in nm)
    if r < 0.7:
        c = nm[0] if nm[0] not in '[]!-^' else 'f'
        return rng.choice(['[%s]*' % c, '[!%s]*' % c, '[a-f]*', '[A-Z]*', '[!a-z]*', '[fF]oo', '[[]*', '*[]]*', '[a-]*', '[]x]*'])
    if r < 0.715:
        # names that LOOK percent-escaped (browser downloads, copied URLs) are matched as they are, the name with the escape
        # resolved is another name
        return rng.choice(['My%20File.pdf', 'My File.pdf', 'My?File.pdf', '*%2[0A]*', 'a%2Ab', 'a[*]b', 'x[[]1[]]', 'x%5B*', '100%', '100%25', '*%*', 'My*'])
    if r < 0.74:
        # a pattern is not a shell word: a leading tilde is a literal character (a directory literally called '~' is the classic
        # accident of a quoted "~/build" in a script)
        return rng.choice(['~', '~', '~/*', '~/w/*', '~/w/' + nm.replace('[', '?'), '~root', '~*', '~/w/sub/*', '[~]', '~?oot'])
    if r < 0.85:
        return rng.choice([home + '/w/' + nm.replace('[', '?'), home + '/*', '/*', '/*/' + nm.replace('[', '?'), '/media/*', '/media/v1/docs/*',
                           '/*foo', home + '/w/sub/*', '/home/u/w/[fF]*', '/*/*/*/*'])
    return rng.choice(['nomatch', 'FOO', 'foo', 'f??', '*.*', '?', '??', '*o*', 'a[*]b', 'a[?]b',
                       # relative patterns that begin with a wildcard and could match THROUGH directory components if they were
                       # (wrongly) applied to the whole path: only the base name counts
                       '*sub*', '*/*', '[!a]*', '*w*', '*docs*', '*home*', '?*/*', '*deeper*', '[!z]*u*'])


def gen(rng):
    L = G.make_layout(rng, trash_states=[rng.choice(['absent', 'sticky']) for _ in range(4)],
                      alt_states=[rng.choice(['absent', 'dir']) for _ in range(4)])
    steps = L['steps']
    names = rng.sample(NAMES, rng.randint(3, 8))
    made = TG.populate(rng, L, steps, n=rng.choice([2, 3, 5, 8, 12]), names=names, bulk=0.002)
    occ = TG.occupy(rng, steps, made, names) if rng.random() < 0.5 else {}
    if made and rng.random() < 0.2:
        # a .trashinfo nobody can take a Path from (left by an interrupted writer, damaged) next to the well-formed ones: in
        # whatever position the directory lists it, it changes nothing for the entries that match
        for j in range(rng.choice([1, 1, 2])):
            TG.add_malformed(rng, steps, rng.choice(made)[0], rng.choice(['empty', 'nopath', 'binary', 'only_header', 'truncated']), 'n%d' % j)
    pat = gen_pattern(rng, names, L['home'])
    ht_ = G.home_trash_of(L['env'])
    in_home = [m_ for m_ in made if m_[0] == ht_ and len(m_[1].encode('utf-8', 'surrogateescape')) < 200 and '\n' not in m_[1]]
    if in_home and rng.random() < 0.08:
        # the same path trashed a second time (report.txt, report.txt_1: two entries, one original location), and often the
        # pattern is exactly that path, without any wildcard: an original location does not identify ONE entry
        tdir_, nm_, loc_, d_ = rng.choice(in_home)
        if not any(s_[1] == tdir_ + '/info/' + nm_ + '_1.trashinfo' for s_ in steps):
            G.add_trashed(steps, tdir_, nm_ + '_1', TG.pct(loc_), TG.iso(TG.rand_date(rng)), rng.choice(['file', 'dir']), tag='again')
            made.append((tdir_, nm_ + '_1', loc_, None))
            if rng.random() < 0.6 and not any(c in loc_ for c in '*?['):
                pat = loc_
    faults = []
    dirs_made = [m for m in made if any(st_[0] == 'd' and st_[1] == m[0] + '/files/' + m[1] for st_ in steps)]
    if dirs_made and rng.random() < 0.12:
        # a trashed directory that holds a sub-directory the user cannot write to (a Go module cache, a tree after chmod -R a-w):
        # its removal fails half way.  Whatever trash-rm does then, an entry never loses its .trashinfo while payload is left
        tdir_, nm_, _loc, _d = rng.choice(dirs_made)
        ro = tdir_ + '/files/' + nm_ + '/ro-sub'
        steps.append(['d', ro, 0o555])
        steps.append(['f', ro + '/pinned', 'cannot be unlinked', 0o444])
        faults.append({'kind': 'cond', 'what': 'dir_not_writable', 'dir': '%RESOLVE%' + ro})
    return {
        'faults': faults,
        'note': {'occupied': sorted(k for k, v in occ.items() if v != 'sibling-target')},
        # (in 6 % of the worlds the partition listing names a volume twice - the same mount point in two lines of the mount table,
        # as after an over-mount: its trash directories are then visited twice in one scan)
        'world': dict({'mounts': L['mounts'], 'steps': steps},
                      **({'mount_order': [m for m in L['mounts']] + [rng.choice(L['vols'])] + [m for m in L['mounts'] if rng.random() < 0.3]}
                         if L['vols'] and rng.random() < 0.06 else {})),
        'procs': [{'argv': ['trash-rm', pat], 'env': L['env'], 'cwd': rng.choice(['/', L['home']]), 'uid': L['uid']}],
        'dirsalt': rng.randrange(1 << 30),
    }


def check(sim, case, st):
    sim.setup(case)
    if case.get('faults'):
        from model import layout as ML_
        pre = sim.snap()
        fixed = []
        for f in case['faults']:
            f = dict(f)
            raw = f['dir'][len('%RESOLVE%'):] if f['dir'].startswith('%RESOLVE%') else f['dir']
            rd = ML_.resolve(pre, raw)
            if rd:
                f['dir'] = rd
                fixed.append(f)
        sim.set_faults(fixed)
        st.probes['payload-that-cannot-be-removed-completely'] += 1
    spec = case['procs'][0]
    if len(spec['argv']) < 2 or spec['argv'][1] == '':
        return []
    pat = spec['argv'][1]
    env, uid = spec.get('env', {}), spec.get('uid', 1000)
    mounts = OR.mounts_of(case)
    snap0 = sim.snap()
    if len(case['world']['steps']) > 400:
        st.probes['trash-dir-with-hundreds-of-entries'] += 1
    bag0 = OR.scan(sim, snap0, env, uid, mounts)
    r = sim.run(spec)
    st.sims += 1
    st.ops += r.nops
    snap1 = sim.snap()
    res = []
    nmatch = 0
    if r.exc is not None and not case.get('faults'):
        res.append(('C12/traceback/%s' % r.exc_frame, 'trash-rm %r raised %s' % (pat, r.exc)))
    bases = {}
    for e in bag0:
        if e.location is None:
            continue
        b = e.location.rsplit('/', 1)[-1]
        bases.setdefault(b, set()).add(e.location.rsplit('/', 1)[0])
        m = MG.rm_matches(e.location, pat)
        gone = OR.pair_gone(snap1, e)
        intact = OR.pair_intact(snap0, snap1, e)
        if m:
            nmatch += 1
        if m and not gone and case.get('faults') and r.exit != 0:
            # a removal was bound to fail (read-only sub-directory) and the command reported failure: entries may stay - but
            # whole: a payload that is still there keeps its .trashinfo
            real_t = ML_.resolve(snap1, e.tdir) or e.tdir
            if (real_t + '/files/' + e.name) in snap1 and (real_t + '/info/' + e.name + '.trashinfo') not in snap1:
                res.append(('C12/info-gone-payload-left/%s' % shape(pat), 'removing %r failed half way (read-only sub-directory) and its .trashinfo is '
                            'gone while payload is left (exit %s) stderr %s' % (e.location, r.exit, r.errs[-300:])))
        elif m and not gone:
            res.append(('C12/matching-not-removed/%s' % shape(pat), 'pattern %r matches %r but the entry is still there (exit %s) stderr %s'
                        % (pat, e.location, r.exit, r.errs[-300:])))
        elif not m and not intact:
            res.append(('C12/nonmatching-touched/%s' % shape(pat), 'pattern %r does not match %r but the entry was %s'
                        % (pat, e.location, 'removed' if gone else 'modified')))
        st.probes['matched' if m else 'unmatched'] += 1
        if m and e.kind != 'home':
            st.probes['volume-trash-match'] += 1
        if not m and any(x.location and x is not e and x.location.rsplit('/', 1)[-1].lower() == b.lower() and
                         MG.rm_matches(x.location, pat) for x in bag0):
            st.probes['case-variant-kept'] += 1
    if case.get('note', {}).get('occupied'):
        st.probes['original-location-occupied-now'] += 1
    if pat.startswith('/'):
        st.probes['full-path-pattern'] += 1
    if '[' in pat:
        st.probes['bracket-pattern'] += 1
    if any(len(v) > 1 for v in bases.values()):
        st.probes['same-basename-multi-dir'] += 1
    n = len([e for e in bag0 if e.location is not None])
    if 0 < nmatch < n:
        st.distinct.add((shape(pat), nmatch, n))
    seen, out = set(), []
    for s, m in res:
        if s not in seen:
            seen.add(s)
            out.append((s, m))
    return out
