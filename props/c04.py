"""C04 - a trashed entry is never overwritten: names stay unique, also under
concurrency.  Engine S: 2-3 trash-put processes of the same user run under a
seeded scheduler that decides every interleaving of their file-system ops;
plus sequential same-name histories (more than 100 names, kind mixes,
orphans)."""
from __future__ import annotations

import hashlib
import posixpath
import random

from gen import base as G
from gen import trashgen as TG
from model import layout as ML
from oracles import put as OP
from oracles import readers as OR
from sim import sched as SS
from sim import world as Wd
from sim.vkernel import K

ID = 'C04'
TIER = 'quick'
LEVEL = 'exploration'
ENGINE = 'schedule'
BUDGET = {'quick': 2500, 'thorough': 300000}
WALL = {'quick': 90, 'thorough': 1800}
RULE = ('2-3 concurrent trash-put processes of one user, each trashing 1-3 entries with the same base names from different directories '
        '(files, directories, symlinks, dangling links) into the same trash directory, which is absent (all create it), present, or pre-filled '
        'with foo, foo_1 ... foo_k pairs, orphan payloads (file, directory, dangling symlink) and stray infos; a crowded variant pre-fills 100 '
        'names and scripts the random suffix so that processes collide; schedulers: uniform choice at every op, PCT priorities with <= 3 change '
        'points, sweeps (A until its k-th op on the shared trash dir, then the others, then A) and, in 30 % of the concurrent cases, one injected '
        'file-system error (rename/open/write/close/mkdir: EIO, EACCES, ENOSPC, EPERM) in one process, mostly with a sweep that switches to the '
        'other processes j = 0..4 shared ops into that process\'s recovery path (sweepfault); a sequential variant trashes the same name '
        '> 100 times; evaluations = schedules; distinct = distinct interleavings of the ops on the shared trash directory (hash of the '
        '(pid, op, path) sequence) with at least one context switch between a reservation (exclusive create) and its rename')
ASSUMPTIONS = ['processes are single-threaded; every system call is atomic; only the order of calls of different processes varies',
               'in a fault-free run where all processes trash distinct existing entries no process may fail (attributed to C04 by its quantifier); '
               'a process that met an injected error may fail, the others may not, and the pair invariant holds for all']
PROBES = ['one-put-of-several-same-named-entries', 'same-path-given-to-several-puts', 'schedules', 'context-switches', 'switch-between-reserve-and-rename', 'both-created-trash-dir', 'eexist-retry', 'crowded-random-suffix',
          'sequential-histories', 'over-100-same-name', 'orphan-dangling-symlink', 'orphan-dir', 'stray-info', 'uniform', 'pct', 'sweep', 'sweepfault', 'three-procs', 'cross-device-puts-next-to-decorated-names',
          'fault-in-one-process', 'fault-fired', 'faulted-process-reported-failure']
TECHNIQUE = 'deterministic simulation of concurrent processes: baton-passing threads under a seeded scheduler (uniform / PCT / sweep), invariant on pairs after all exit'
LEVEL_TEXT = ('seeded search over interleavings of the real trash-put processes\' file-system operations; each schedule is one repeatable '
              'execution (the recorded choice list replays it); not exhaustive')
LEVEL_NOTE = 'trusted: the scheduler (only the baton holder runs; every vkernel op is a pre-emption point), the C01 frame oracle'


DECOR = ['%s.part', '%s.tmp', '%s~', '%s.partial', '%s.bak', '%s.new', '%s.copy', '.%s.swp', '%s.trashinfo', '%s_1', '%s.1', '#%s#']


def gen_xdev(rng):
    """puts that reach the home trash through the cross-device fallback (copy + delete), one after the other, into a trash that
    already holds entries under 'decorated' variants of the same names (N.part, N.tmp, N~, .N.swp, N_1 ...): whatever
    staging the move uses, only the name it reserved (info/N.trashinfo) is its own"""
    L = G.make_layout(rng, nvol=1, xdg=rng.choice(['unset', 'set']), home_mode='root', uid=1000, trash_states=['absent'], alt_states=['absent'])
    steps = L['steps']
    home, uid, env = L['home'], L['uid'], dict(L['env'])
    ht = G.home_trash_of(env)
    v = L['vols'][0]
    steps[:] = [st_ for st_ in steps if not (st_[1].endswith('/.Trash') or '/.Trash-' in st_[1] or '/.Trash/' in st_[1])]
    steps.append(['f', v + '/.Trash-%d' % uid, 'blocker', 0o600])
    env['TRASH_ENABLE_HOME_FALLBACK'] = '1'
    names = rng.sample(['movie.mkv', 'proj', 'foo', 'a b', 'notes.txt'], rng.randint(1, 2))
    procs = []
    k = 0
    for nm in names:
        for pat in rng.sample(DECOR, rng.randint(1, 4)):
            k += 1
            G.add_trashed(steps, ht, pat % nm, TG.pct(home + '/old/' + (pat % nm)), '2019-0%d-01T00:00:00' % (k % 9 + 1), rng.choice(['file', 'dir']), tag='dec%d' % k)
        p = L['work'][v] + '/' + nm
        G.make_entry(rng, p, rng.choice(['file', 'dir', 'deepdir', 'empty']), steps, v + '/aux')
        procs.append({'argv': ['trash-put', '--home-fallback', '--', p], 'env': env, 'cwd': '/', 'uid': uid})
    return {'world': {'mounts': L['mounts'], 'steps': steps}, 'dirsalt': rng.randrange(1 << 30), 'mode': 'seq', 'procs': procs,
            'sched': {}, 'note': {'state': 'xdev-decorated', 'names': names}}


def gen_multiarg(rng):
    """ONE trash-put given several same-named entries from different directories (trash-put */config), of mixed kinds - one of
    them may be a symlink to another of them ('current' -> 'v1', a/config -> ../b/config): each is an entry of its own"""
    L = G.make_layout(rng, nvol=0, xdg=rng.choice(['unset', 'set']), home_mode='root', uid=1000)
    steps = L['steps']
    home, uid, env = L['home'], L['uid'], dict(L['env'])
    nm = rng.choice(['foo', 'config', 'a b', 'notes.trashinfo'])
    n = rng.choice([2, 2, 3])
    paths = []
    for i in range(n):
        d = home + '/p%d' % i
        steps.append(['d', d, 0o755])
        G.make_entry(rng, d + '/' + nm, rng.choice(['file', 'file', 'dir', 'link_dangling', 'empty']), steps, home + '/aux')
        paths.append(d + '/' + nm)
    linked = rng.random() < 0.6
    if linked:
        i, j = rng.sample(range(n), 2)
        steps[:] = [s_ for s_ in steps if not (s_[1] == paths[i] or s_[1].startswith(paths[i] + '/'))]
        steps.append(['l', paths[i], rng.choice(['../p%d/%s' % (j, nm), paths[j]])])
    rng.shuffle(paths)
    cwd = rng.choice([home, home + '/p0', '/'])
    args = [p if rng.random() < 0.5 else posixpath.relpath(p, cwd) for p in paths]
    procs = [{'argv': ['trash-put'] + rng.choice([[], [], ['-v'], ['-f']]) + ['--'] + args, 'env': env, 'cwd': cwd, 'uid': uid}]
    return {'world': {'mounts': L['mounts'], 'steps': steps}, 'dirsalt': rng.randrange(1 << 30), 'mode': 'seq', 'procs': procs,
            'sched': {}, 'note': {'state': 'multiarg', 'names': [nm], 'linked': linked}}


def gen(rng):
    if rng.random() < 0.08:
        return gen_xdev(rng)
    if rng.random() < 0.06:
        return gen_multiarg(rng)
    mode = rng.choice(['conc', 'conc', 'conc', 'conc', 'crowded', 'seq'])
    L = G.make_layout(rng, nvol=0, xdg=rng.choice(['unset', 'set']), home_mode='root', uid=1000)
    steps = L['steps']
    home, uid, env = L['home'], L['uid'], dict(L['env'])
    ht = G.home_trash_of(env)
    names = rng.choice([['foo'], ['foo'], ['foo', 'bar'], ['a b', 'foo'], ['x' * 200], ['L' * 250], ['é' * 120 + 'z' * 8],
                        # names that contain the info suffix, next to their stems: info/N.trashinfo is the only lock on files/N
                        ['notes.trashinfo', 'notes'], ['x.trashinfo.trashinfo', 'x.trashinfo', 'x'],
                        # names made of what is special to globs, regular expressions and format strings: a name is a name
                        ['report[1].txt'], ['photos [2019]', 'photos 2'], ['[backup] notes'], ['a*b', 'aXb'], ['q?', 'qq'], ['100%d'], ['{0}'],
                        # (246-253 bytes: NAME.trashinfo does not fit in NAME_MAX but NAME_<n> does)
                        ['n' * 248], ['m' * 252, 'foo']])
    case = {'world': {'mounts': L['mounts'], 'steps': steps}, 'dirsalt': rng.randrange(1 << 30), 'mode': mode}
    state = rng.choice(['absent', 'absent', 'present', 'filled', 'filled', 'orphans'])
    if mode == 'crowded':
        state = 'crowded'
    if state == 'present':
        steps.append(['d', ht + '/files', 0o700])
        steps.append(['d', ht + '/info', 0o700])
    elif state in ('filled', 'orphans'):
        for nm in names:
            short = nm[:200]
            k = rng.randint(0, 4)
            for j in range(k + 1 if len(nm.encode('utf-8')) <= 244 else 0):
                tn = short if j == 0 else '%s_%d' % (short, j)
                G.add_trashed(steps, ht, tn, TG.pct(home + '/old/' + nm), '2019-0%d-01T00:00:00' % (j + 1), rng.choice(['file', 'dir']), tag='old%d' % j)
            if state == 'orphans':
                o = '%s_%d' % (short, k + 1)
                if len(nm.encode('utf-8')) > 244:
                    # after ENAMETOOLONG the trash name is the base name shortened by len('_1.trashinfo')
                    o = nm[:len(nm) - len('_1.trashinfo')] + '_1'
                kind = rng.choice(['file', 'dir', 'dangling', 'strayinfo', 'info_then_payload', 'info_then_payload'])
                steps.append(['d', ht + '/files', 0o700])
                steps.append(['d', ht + '/info', 0o700])
                if kind == 'file':
                    steps.append(['f', ht + '/files/' + o, 'orphan payload', 0o644])
                elif kind == 'dir':
                    steps.append(['d', ht + '/files/' + o, 0o755])
                    steps.append(['f', ht + '/files/' + o + '/inner', 'orphan inner', 0o644])
                elif kind == 'info_then_payload':
                    # an info without payload at the first free name, a payload without info at the name after it:
                    # every candidate name needs its own probe
                    steps.append(['f', ht + '/info/' + o + '.trashinfo', G.fmt_info(TG.pct(home + '/old/' + nm), '2019-09-09T09:09:09'), 0o600])
                    if len(nm.encode('utf-8')) <= 244:
                        o2 = '%s_%d' % (short, k + 2)
                        steps.append(rng.choice([['f', ht + '/files/' + o2, 'PRECIOUS orphan payload', 0o644], ['l', ht + '/files/' + o2, 'nowhere-at-all']]))
                elif kind == 'dangling':
                    steps.append(['l', ht + '/files/' + o, 'nowhere-at-all'])
                else:
                    steps.append(['f', ht + '/info/' + o + '.trashinfo', G.fmt_info(TG.pct(home + '/old/' + nm), '2019-09-09T09:09:09'), 0o600])
    elif state == 'crowded':
        nm = names[0][:100]
        names = [nm]
        for j in range(100):
            tn = nm if j == 0 else '%s_%d' % (nm, j)
            G.add_trashed(steps, ht, tn, TG.pct(home + '/old/' + nm), '2019-01-01T00:00:00', 'none', tag='c%d' % j)
            steps.append(['f', ht + '/files/' + tn, 'c%d' % j, 0o644])
        # past the 100th use of a name the suffix is a random number: the scripted draws begin with taken values, and payloads
        # WITHOUT info sit at some of the numbers drawn later (leftovers of interrupted puts): each must survive, whatever number
        # is probed and whatever number is used
        crowded_script = [rng.choice([1, 2, 3]) for _ in range(6)] + [rng.randrange(200, 60000) for _ in range(40)]
        for r_ in sorted(set(crowded_script[6:30])):
            if rng.random() < 0.4:
                steps.append(rng.choice([['f', ht + '/files/%s_%d' % (nm, r_), 'PRECIOUS orphan payload', 0o644],
                                         ['f', ht + '/files/%s_%d' % (nm, r_), 'PRECIOUS orphan payload', 0o644],
                                         ['l', ht + '/files/%s_%d' % (nm, r_), 'nowhere-at-all']]))
    nprocs = 1 if mode == 'seq' else (rng.choice([2, 2, 2, 3]) if TIER == 'quick' else rng.choice([2, 2, 3, 3, 4]))
    procs = []
    for pi in range(nprocs):
        d = home + '/p%d' % pi
        steps.append(['d', d, 0o755])
        args = []
        mine = names if rng.random() < 0.7 else names[:1]
        for nm in mine:
            p = d + '/' + nm
            G.make_entry(rng, p, rng.choice(['file', 'file', 'dir', 'link_dangling', 'link_file', 'empty']), steps, home + '/aux')
            # distinct contents per process so that every payload is attributable
            steps.append(['f', d + '/.marker-%d' % pi, 'm', 0o644])
            args.append(p if rng.random() < 0.5 else nm)
        spec = {'argv': ['trash-put', '--'] + args, 'env': env, 'cwd': d, 'uid': uid}
        if mode == 'crowded':
            # scripted suffixes: every process draws the same taken values first
            spec['rand'] = None
        procs.append(spec)
    samepath = mode == 'conc' and rng.random() < 0.08
    if samepath:
        # every process is given the SAME path
        steps.append(['d', home + '/shared', 0o755])
        G.make_entry(rng, home + '/shared/' + names[0], rng.choice(['file', 'dir', 'link_dangling']), steps, home + '/aux')
        for spec in procs:
            spec['argv'] = ['trash-put', '--', home + '/shared/' + names[0]]
    if mode == 'seq':
        # the same name trashed again and again, one process after the other
        n = rng.choice([3, 12, 105, 120])
        procs = []
        for i in range(n):
            procs.append({'argv': ['trash-put', '--', 'again'], 'env': env, 'cwd': home + '/p0', 'uid': uid,
                          'pre': [['f' if i % 3 else 'd', home + '/p0/again'] + (['c%d' % i, 0o644, 1_400_000_000 + i] if i % 3 else [0o755])]})
        steps.append(['d', home + '/p0', 0o755])
    case['procs'] = procs
    case['sched'] = {'strategy': rng.choice(['uniform', 'uniform', 'pct', 'sweep']), 'seed': rng.randrange(1 << 30),
                     'depth': rng.randint(1, 3), 'sweep': {'pid': rng.randint(1, nprocs), 'k': rng.randrange(0, 14)}}
    if mode == 'conc' and rng.random() < 0.3:
        # one process meets a file-system error in the middle of its put: its recovery path then
        # runs interleaved with the other processes' puts (sweepfault: switch right inside it)
        import errno as E
        fp = rng.randint(1, nprocs)
        op = rng.choice(['rename', 'rename', 'rename', 'open_w', 'write', 'close', 'mkdir'])
        case['faults'] = [{'kind': 'shot', 'pid': fp, 'op': op, 'k': rng.choice([0, 0, 0, 1, 2]),
                           'errno': rng.choice({'rename': [E.EIO, E.EACCES, E.ENOSPC, E.EPERM], 'open_w': [E.EIO, E.EACCES, E.ENOSPC],
                                                'write': [E.EIO, E.ENOSPC], 'close': [E.EIO], 'mkdir': [E.EACCES, E.EIO]}[op])}]
        if rng.random() < 0.6:
            case['sched']['strategy'] = 'sweepfault'
            case['sched']['sweep'] = {'pid': fp, 'j': rng.randrange(0, 5)}
    if mode == 'crowded':
        case['randscript'] = crowded_script
    case['note'] = {'state': state, 'names': names, 'samepath': samepath}
    if samepath:
        case.pop('faults', None)
    return case


def check_samepath(sim, case, st, procs, before, mounts, skel):
    """two (or three) trash-put processes are given THE SAME path (a double click, xargs -P over a list with a duplicate): every
    process that reports success owns a complete pair of its own - so at most one can; a loser reports failure and leaves nothing"""
    sc = case.get('sched', {})
    chooser = SS.Chooser(random.Random(sc.get('seed', 0)), sc.get('strategy', 'uniform'), nprocs=len(procs),
                         choices=sc.get('choices'), depth=sc.get('depth', 2), est_ops=120 * len(procs), sweep=sc.get('sweep'))
    ht_dirs = sorted(set(posixpath.dirname(posixpath.dirname(p)) for p in skel if p.endswith('/files')))
    results, sch = SS.run_concurrent(sim, procs, chooser, shared_prefixes=tuple(ht_dirs))
    st.sims += len(procs)
    st.ops += sum(r.nops for r in results)
    st.probes['same-path-given-to-several-puts'] += 1
    after = sim.snap()
    res = []
    ctx = '(strategy %s, %d switches, exits %r) stderr: %s' % (sc.get('strategy'), sch.switches, [r.exit for r in results], ' | '.join(r.errs[-200:] for r in results))
    new_pairs, stray_infos, orphan_payloads = 0, [], []
    for T in ML.trash_dirs_in(after) | ML.trash_dirs_in(before):
        ni = ML.infos(after, T) - ML.infos(before, T)
        npl = ML.payloads(after, T) - ML.payloads(before, T)
        new_pairs += len(ni & npl)
        stray_infos += [T + '/info/' + n for n in ni - npl]
        orphan_payloads += [T + '/files/' + n for n in npl - ni]
    ok = sum(1 for r in results if r.exit == 0 and r.exc is None)
    sig = 'n%d' % len(procs)
    if any(r.exc is not None for r in results):
        res.append(('C04/samepath/traceback/%s' % sig, 'a process raised %s %s' % ([r.exc for r in results if r.exc], ctx)))
    if ok != new_pairs:
        res.append(('C04/samepath/successes-vs-pairs/%s' % sig, '%d process(es) reported success for the one path, the trash got %d complete new pair(s) %s' % (ok, new_pairs, ctx)))
    if stray_infos:
        res.append(('C04/samepath/stray-info/%s' % sig, 'a .trashinfo without payload was left: %r %s' % (stray_infos[:3], ctx)))
    if orphan_payloads:
        res.append(('C04/samepath/payload-without-info/%s' % sig, '%r %s' % (orphan_payloads[:3], ctx)))
    return _dedup(res)


def check(sim, case, st):
    sim.setup(case)
    procs = case['procs']
    mounts = OR.mounts_of(case)
    mode = case.get('mode', 'conc')
    env = procs[0].get('env', {}) if procs else {}
    uid = procs[0].get('uid', 1000) if procs else 1000
    skel = OP.candidate_skeleton(env, uid, mounts)
    res = []
    if mode == 'seq':
        st.probes['sequential-histories'] += 1
        if len(procs) > 100:
            st.probes['over-100-same-name'] += 1
        snap = sim.snap()
        npairs0 = sum(len(ML.infos(snap, T) & ML.payloads(snap, T)) for T in ML.trash_dirs_in(snap))
        ok = 0
        digests = []
        for i, spec in enumerate(procs):
            if spec.get('pre'):
                Wd.build(sim.root, {'steps': spec['pre']})
            before = sim.snap()
            files = spec['argv'][spec['argv'].index('--') + 1:]
            named = [OP.name_entry(sim.root, spec.get('cwd', '/'), a, before, mounts) for a in files]
            if any(n.kind != 'entry' for n in named):
                return []
            r = sim.run(spec)
            st.sims += 1
            st.ops += r.nops
            after = sim.snap()
            outs, probs = OP.judge(sim.root, before, after, named, mounts, skel)
            for clause, detail, nm in probs:
                res.append(('C04/seq/%s' % clause, 'put #%d of the same name: %s %s (exit %s) stderr %s' % (i, clause, detail, r.exit, r.errs[-300:])))
            if r.exit != 0:
                res.append(('C04/seq/put-failed', 'put #%d of the same name failed (exit %s): %s' % (i, r.exit, r.errs[-400:])))
            elif not probs and any(o.state != 'trashed' for o in outs):
                res.append(('C04/seq/success-reported-but-not-trashed', 'put #%d (argv %r) exits 0 but %r is in state %s' % (
                    i, spec['argv'], [o.named.arg for o in outs if o.state != 'trashed'][:3], [o.state for o in outs if o.state != 'trashed'][:3])))
            if case.get('note', {}).get('state') == 'multiarg':
                st.probes['one-put-of-several-same-named-entries'] += 1
            if all(o.state == 'trashed' for o in outs) and r.exit == 0:
                ok += len(outs)
            if res:
                break
        snap = sim.snap()
        npairs = sum(len(ML.infos(snap, T) & ML.payloads(snap, T)) for T in ML.trash_dirs_in(snap))
        if not res and npairs != npairs0 + ok:
            res.append(('C04/seq/pair-count', 'after %d successful puts of the same name the trash holds %d pairs more (expected %d)' % (ok, npairs - npairs0, ok)))
        st.distinct.add(('seq', len(procs)))
        if case.get('note', {}).get('state') == 'xdev-decorated':
            st.probes['cross-device-puts-next-to-decorated-names'] += 1
        return _dedup(res)
    # ---- concurrent ---------------------------------------------------------
    before = sim.snap()
    allnamed = []
    per_proc = []
    for spec in procs:
        files = spec['argv'][spec['argv'].index('--') + 1:]
        named = [OP.name_entry(sim.root, spec.get('cwd', '/'), a, before, mounts) for a in files]
        per_proc.append(named)
        allnamed.extend(named)
    if case.get('note', {}).get('samepath'):
        return check_samepath(sim, case, st, procs, before, mounts, skel)
    if OP.related(allnamed) or any(n.kind != 'entry' for n in allnamed):
        return []
    sc = case.get('sched', {})
    chooser = SS.Chooser(random.Random(sc.get('seed', 0)), sc.get('strategy', 'uniform'), nprocs=len(procs),
                         choices=sc.get('choices'), depth=sc.get('depth', 2), est_ops=120 * len(procs), sweep=sc.get('sweep'))
    if case.get('randscript'):
        from sim import proc as P
        P.RANDOM.script = list(case['randscript'])
    ht_dirs = sorted(set(posixpath.dirname(posixpath.dirname(p)) for p in skel if p.endswith('/files')))
    shared = tuple(d for d in ht_dirs)
    results, sch = SS.run_concurrent(sim, procs, chooser, shared_prefixes=shared)
    # pids of this run are pid0+1 ...; fault rules name them 1-based
    faulted = set(f.get('pid') for f in case.get('faults', []) if K.fired)
    if case.get('faults'):
        st.probes['fault-in-one-process'] += 1
        if K.fired:
            st.probes['fault-fired'] += 1
            if any(r.exit != 0 for r in results if r.pid in faulted):
                st.probes['faulted-process-reported-failure'] += 1
    st.sims += len(procs)
    st.ops += sum(r.nops for r in results)
    st.probes['schedules'] += 1
    st.probes[sc.get('strategy', 'uniform')] += 1
    st.probes['context-switches'] += sch.switches
    if len(procs) == 3:
        st.probes['three-procs'] += 1
    after = sim.snap()
    outs, probs = OP.judge(sim.root, before, after, allnamed, mounts, skel)
    note = case.get('note', {})
    sigctx = '%s/%s' % (note.get('state', '?'), 'n%d' % len(procs))
    detail_ctx = '(strategy %s, %d context switches, exits %r)\nstderr: %s' % (
        sc.get('strategy'), sch.switches, [r.exit for r in results], ' | '.join(r.errs[-300:] for r in results))
    for clause, detail, nm in probs:
        res.append(('C04/conc/%s/%s' % (clause, sigctx), '%s: %s %s' % (clause, detail if nm is None else nm.arg, detail_ctx)))
    for r in results:
        if r.exc is not None:
            res.append(('C04/conc/traceback:%s/%s' % (r.exc_frame, sigctx), 'process %d raised %s %s' % (r.pid, r.exc, detail_ctx)))
        elif r.exit != 0 and r.pid not in faulted:
            res.append(('C04/conc/process-failed/%s' % sigctx, 'process %d (argv %r) failed although all entries exist and are distinct %s' % (r.pid, r.argv, detail_ctx)))
    # distinct pairs per successful argument is implied by judge (each payload is used once)
    trashed = [o for o in outs if o.state == 'trashed']
    if len(set((o.tdir, o.name) for o in trashed)) != len(trashed):
        res.append(('C04/conc/pair-shared/%s' % sigctx, 'two arguments own the same pair %s' % detail_ctx))
    # probes on the interleaving
    inter = sch.interleaving
    reserve = {}
    sw = False
    last_pid = None
    for pid, op, path in inter:
        if op == 'open_w' and path and path.endswith('.trashinfo'):
            reserve[pid] = True
        if last_pid is not None and pid != last_pid and any(reserve.get(q) for q in reserve if q != pid):
            sw = True
        if op == 'rename':
            reserve[pid] = False
        last_pid = pid
    if sw:
        st.probes['switch-between-reserve-and-rename'] += 1
        h = hashlib.sha256(repr(inter).encode('utf-8', 'backslashreplace')).hexdigest()[:16]
        st.distinct.add(h)
    mk = {}
    for pid, op, path in inter:
        if op == 'mkdir':
            mk.setdefault(path, set()).add(pid)
    if any(len(v) > 1 and p is not None and p not in before for p, v in mk.items()):
        st.probes['both-created-trash-dir'] += 1
    if any(ev[2] == 'open_w' and ev[6] == 'E:EEXIST' for r in results for ev in r.trace):
        st.probes['eexist-retry'] += 1
    if case.get('randscript') is not None:
        from sim import proc as P
        if P.RANDOM.calls:
            st.probes['crowded-random-suffix'] += 1
    for k, v in before.items():
        if '/files/' in k and k.count('/') == (k.split('/files/')[0].count('/') + 2):
            T = k.split('/files/')[0]
            N = k.split('/files/')[1]
            if (T + '/info/' + N + '.trashinfo') not in before:
                st.probes['orphan-dangling-symlink' if v[0] == 'l' else ('orphan-dir' if v[0] == 'd' else 'orphan-file')] += 1
    for k in before:
        if '/info/' in k and k.endswith('.trashinfo'):
            T, N = k.split('/info/', 1)
            if '/' not in N and (T + '/files/' + N[:-len('.trashinfo')]) not in before:
                st.probes['stray-info'] += 1
    # remember the schedule for the replay file
    case.setdefault('sched', {})['recorded'] = list(chooser.recorded)
    return _dedup(res)


def pin(case, sig):
    """a replay uses the recorded choice list, not the PRNG"""
    import copy
    c = copy.deepcopy(case)
    rec = c.get('sched', {}).pop('recorded', None)
    if rec is not None:
        c['sched']['choices'] = rec
        c['sched']['strategy'] = 'replay'
    return c


def _dedup(res):
    seen, out = set(), []
    for s, m in res:
        if s not in seen:
            seen.add(s)
            out.append((s, m))
    return out
