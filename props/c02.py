"""C02 - put then restore returns the exact entry to its exact original path."""
from __future__ import annotations

import posixpath

from gen import base as G
from gen import trashgen as TG
from model import layout as ML
from oracles import put as OP
from oracles import readers as OR
from sim import world as Wd

ID = 'C02'
LEVEL = 'exploration'
ENGINE = 'history'
BUDGET = {'quick': 5000, 'thorough': 150000}
WALL = {'quick': 45, 'thorough': 1500}
RULE = ('histories put x; (other puts / restores / purges of other entries / removal of x\'s parent directories)*; restore x, with restore '
        'run from the original directory, an ancestor, / or given the path; every --sort; home, .Trash/$uid, .Trash-$uid and --trash-dir '
        'layouts; names from the trouble pool; non-trivial = x was trashed and at least one other command ran in between or the parent '
        'was removed; distinct = (entry kind, trash-dir kind, sort, scope kind, parent removed)')
ASSUMPTIONS = ['the premise is a successful trash-put: names that trash-put cannot trash (not valid UTF-8) are judged by C16',
               'listing lines are attributed to entries by (date, path); identical lines are interchangeable']
PROBES = ['roundtrip-across-devices', 'payload-in-trash-differs-from-the-original', 'failed-attempt-then-retry', 'trash-dir-through-cross-volume-symlink', 'roundtrip-ok', 'parent-recreated', 'volume-trash', 'top-trash', 'custom-trash-dir', 'sort-none', 'sort-path', 'sort-date',
          'name-with-newline', 'from-ancestor', 'from-root', 'by-path-argument', 'collision-suffix']
TECHNIQUE = 'deterministic simulation of put/.../restore histories; snapshot equality of the original subtree and frame diff of the restore step'
LEVEL_TEXT = 'seeded round-trip law over names x kinds x layouts x sort modes x intervening histories, on the real commands end to end'
LEVEL_NOTE = 'trusted: snapshot function, listing parser'


def gen(rng):
    ts = [rng.choice(['absent', 'sticky', 'sticky', 'file']) for _ in range(4)]
    L = G.make_layout(rng, trash_states=ts, alt_states=[rng.choice(['absent', 'dir']) for _ in range(4)],
                      xdg=rng.choice(['unset', 'unset', 'set', 'link']))
    steps = L['steps']
    home, uid, env = L['home'], L['uid'], dict(L['env'])
    vol = rng.choice(['/'] + L['vols'])
    wd = L['work'][vol]
    aux = home + '/aux' if vol == '/' else vol + '/aux'
    sub = rng.choice(['', '/p1', '/p1/p2'])
    if rng.random() < 0.05:
        # a deep location of multi-byte names below p1 (each component ~240 bytes): the escaped Path value is 6-10 KB long
        sub = '/p1/' + '/'.join(rng.choice(['é' * 118, 'ж' * 118, '日' * 79]) + str(k_) for k_ in range(rng.randint(9, 14)))
        steps.append(['d', wd + sub, 0o755])
    if sub:
        steps.append(['d', wd + '/p1', 0o755])
        if sub == '/p1/p2':
            steps.append(['d', wd + '/p1/p2', 0o750])
    d = wd + sub
    nm = G.pick_names(rng, 1, allow_invalid=False, trouble=0.6)[0]
    if rng.random() < 0.08:
        # an entry whose own name contains the info suffix (a stray .trashinfo somebody tidied away, a backup of one)
        nm = rng.choice(['old.trashinfo', 'notes.trashinfo.bak', 'saved.trashinfo.d', 'a.trashinfo.trashinfo'])
    kind = rng.choice(G.KINDS)
    G.make_entry(rng, d + '/' + nm, kind, steps, aux)
    others = G.pick_names(rng, 3, allow_invalid=False, trouble=0.2)
    for o in others:
        if o != nm:
            G.make_entry(rng, wd + '/' + o, rng.choice(['file', 'dir']), steps, aux)
    # an older trashed entry with the same name (collision) sometimes
    if rng.random() < 0.3 and len(nm.encode('utf-8')) < 200:
        G.add_trashed(steps, G.home_trash_of(env), nm, TG.pct(home + '/w/' + nm), '2019-01-01T00:00:00', 'file', tag='older')
    x = d + '/' + nm
    put_argv = ['trash-put']
    tdopt = None
    if rng.random() < 0.15:
        tdopt = (home + '/customT') if vol == '/' else (vol + '/customT')
        if vol != '/' and rng.random() < 0.5:
            # the trash directory is named through a symlink that sits on another volume than the directory itself:
            # put and restore must anchor a relative Path at the same top directory
            steps.append(['d', vol + '/customT', 0o700])
            steps.append(['l', home + '/tlink', vol + '/customT'])
            tdopt = home + '/tlink'
        put_argv += ['--trash-dir', tdopt]
    xdev = False
    if tdopt is None and vol != '/' and rng.random() < 0.15:
        # the volume's own trash directories cannot be used and the home fallback is enabled: the entry travels to the home trash
        # and back by copy + delete across devices, and still comes back identical
        for t_ in (vol + '/.Trash', vol + '/.Trash-%d' % uid):
            steps.append(['rm', t_])
            steps.append(['f', t_, 'not a directory', 0o600])
        put_argv.append('--home-fallback')
        env['TRASH_ENABLE_HOME_FALLBACK'] = '1'
        xdev = True
    put_argv += ['--', x if rng.random() < 0.5 else nm]
    procs = [{'argv': put_argv, 'env': env, 'cwd': d, 'uid': uid}]
    removed_parent = False
    for _k in range(rng.choice([0, 0, 1, 2, 3])):
        r = rng.random()
        if r < 0.35:
            o = rng.choice(others)
            procs.append({'argv': ['trash-put', '--', wd + '/' + o], 'env': env, 'cwd': '/', 'uid': uid, 'advance': rng.choice([0, 1, 70])})
        elif r < 0.5:
            procs.append({'argv': ['trash-rm', 'zzz-nomatch*'], 'env': env, 'cwd': '/', 'uid': uid})
        elif r < 0.6:
            procs.append({'argv': ['trash-empty', '100000'], 'env': env, 'cwd': '/', 'uid': uid})
        elif r < 0.8 and sub and not removed_parent:
            procs.append({'foreign': [['rm', wd + '/p1']]})
            removed_parent = True
        else:
            procs.append({'argv': ['trash-list'], 'env': env, 'cwd': '/', 'uid': uid})
    if vol != '/' and L['trash'][vol]['top'] == 'absent' and tdopt is None and not xdev and rng.random() < 0.35:
        # the layout changes after x was trashed: the administrator creates the shared sticky $topdir/.Trash, later puts go
        # to .Trash/$uid - x, in .Trash-$uid, must remain restorable (both directories of the volume are read)
        procs.append({'foreign': [['d', vol + '/.Trash', 0o1777]]})
        if rng.random() < 0.7:
            procs.append({'argv': ['trash-put', '--', wd + '/' + rng.choice(others)], 'env': env, 'cwd': '/', 'uid': uid, 'advance': 3})
    sort = rng.choice(['date', 'path', 'none', None])
    argv = ['trash-restore']
    if sort:
        argv.append('--sort=' + sort)
    if tdopt:
        argv += ['--trash-dir', tdopt]
    scope = rng.choice(['dir', 'ancestor', 'root', 'arg', 'arg_entry'])
    if removed_parent and scope == 'dir':
        scope = 'ancestor'
    cwd = {'dir': d, 'ancestor': wd, 'root': '/', 'arg': '/', 'arg_entry': home}[scope]
    if scope == 'arg':
        argv.append(d)
    elif scope == 'arg_entry':
        argv.append(x)
    procs.append({'argv': argv, 'env': env, 'cwd': cwd, 'uid': uid, 'stdin': '?', 'advance': rng.choice([0, 5, 86400])})
    failed_first = rng.random() < 0.2
    return {
        # (6 % of the worlds with volumes: one of them is under systemd / autofs automount control - the mount table names its
        # mount point twice, the autofs placeholder first)
        'world': dict({'mounts': L['mounts'], 'steps': steps}, **({'automount': [rng.choice(L['vols'])]} if L['vols'] and rng.random() < 0.06 else {})),
        'procs': procs,
        'dirsalt': rng.randrange(1 << 30),
        'note': {'scope': scope, 'kind': kind, 'xdev': xdev},
        'failed_first_attempt': failed_first,
    }


def check(sim, case, st):
    procs = case['procs']
    if len(procs) < 2 or 'argv' not in procs[0] or posixpath.basename(procs[0]['argv'][0]) != 'trash-put' \
            or 'argv' not in procs[-1] or posixpath.basename(procs[-1]['argv'][0]) != 'trash-restore':
        return []
    sim.setup(case)
    mounts = OR.mounts_of(case)
    put = procs[0]
    from props.c01 import parse_args
    files = parse_args(put['argv'])
    if len(files) != 1:
        return []
    snap0 = sim.snap()
    named = [OP.name_entry(sim.root, put.get('cwd', '/'), files[0], snap0, mounts)]
    if named[0].kind != 'entry':
        return []
    r = sim.run(put)
    st.sims += 1
    st.ops += r.nops
    snap1 = sim.snap()
    outs, _p = OP.judge(sim.root, snap0, snap1, named, mounts)
    loc = named[0].loc
    T = N = None
    if outs[0].state == 'trashed' and r.exit == 0:
        T, N = outs[0].tdir, outs[0].name
    elif r.exit == 0 and loc and loc not in snap1:
        # trash-put reports success and the entry left its place, but no new payload is an identical copy: if exactly one new
        # pair is described as coming from this location it is the entry (altered on its way in) - the round trip is judged on it
        cand = [(T_, N_) for T_ in ML.trash_dirs_in(snap1) for N_ in ML.payloads(snap1, T_) - ML.payloads(snap0, T_)
                if OP._info_names_loc(sim.root, snap1, T_, N_, loc, mounts)[0]]
        if len(cand) == 1:
            T, N = cand[0]
            st.probes['payload-in-trash-differs-from-the-original'] += 1
    if T is None:
        st.probes['premise-not-met:put-did-not-trash'] += 1      # C01/C16/C17 judge failing puts
        return []
    orig = Wd.subtree(snap0, loc)
    put_dates = r.clock
    between = 0
    parent_removed = False
    for spec in procs[1:-1]:
        if 'foreign' in spec:
            Wd.build(sim.root, {'steps': spec['foreign']})
            parent_removed = True
        else:
            if any(files[0] == a or loc == a for a in spec['argv'][1:]):
                return []          # the history touches x itself: out of scope
            sim.run(spec)
            st.sims += 1
        between += 1
    rs = dict(procs[-1])
    snap2 = sim.snap()
    if (T + '/files/' + N) not in snap2 or (T + '/info/' + N + '.trashinfo') not in snap2:
        # the commands in between (puts of OTHER files, trash-list, trash-rm of a pattern that matches nothing, trash-empty with a
        # DAYS far beyond the age of x) have no business with x
        return [('C02/entry-damaged-by-the-history-in-between/sort=-', 'after %r the entry %s/files/%s + its .trashinfo is no longer whole in the trash (payload there: %s, info there: %s)'
                 % ([p_.get('argv', 'foreign') for p_ in procs[1:-1]], T, N, (T + '/files/' + N) in snap2, (T + '/info/' + N + '.trashinfo') in snap2))]
    if ML.resolve(snap2, rs.get('cwd', '/')) is None:
        return []
    res = []
    sort = 'date'
    for a in rs['argv']:
        if a.startswith('--sort='):
            sort = a[7:]
    st.probes['sort-' + sort] += 1

    def bad(clause, msg):
        res.append(('C02/%s/sort=%s' % (clause, sort), msg))

    # an interactive user: reads the listing, then types the index of x
    lo = min(put_dates).replace(microsecond=0) if put_dates else None
    hi = max(put_dates).replace(microsecond=0) if put_dates else None
    seen = {}

    def user(stdout_so_far):
        items = OR.parse_restore_items(stdout_so_far)
        seen['items'] = items
        if not items:
            return '\n'
        cand = [i for i, d, p in items if p == loc and (lo is None or d in (str(lo), str(hi)))]
        seen['cand'] = cand
        if not cand:
            return '\n'
        # identical lines are interchangeable; prefer the one that is ours if
        # the listing is unambiguous
        return '%d\n' % cand[-1 if seen.get('second') else 0]

    if case.get('failed_first_attempt'):
        # the destination directory is not writable for the first attempt (EACCES at the move):
        # the attempt must fail and leave the entry restorable
        from sim.vkernel import K
        sb = sim.snap()
        par = posixpath.dirname(loc)
        sim.set_faults([{'kind': 'cond', 'what': 'dir_not_writable', 'dir': par}])
        r1 = sim.run(rs, stdin_fn=user)
        sim.set_faults([])
        st.sims += 1
        sa = sim.snap()
        st.probes['failed-attempt-then-retry'] += 1
        if loc in sa:
            bad('restored-despite-unwritable-directory', 'the destination directory was not writable but %r appeared' % loc)
            return res
        if (T + '/files/' + N) not in sa or (T + '/info/' + N + '.trashinfo') not in sa:
            bad('failed-restore-damaged-entry', 'a restore that failed at the move (EACCES, exit %s) left the trash without %s of the entry: stderr %s'
                % (r1.exit, 'the payload' if (T + '/files/' + N) not in sa else 'the .trashinfo', r1.errs[-300:]))
            return res
        seen.clear()
    snap_before = sim.snap()
    rr = sim.run(rs, stdin_fn=user)
    st.sims += 1
    st.ops += rr.nops
    snap3 = sim.snap()
    if rr.exc is not None and not seen.get('items'):
        bad('listing-traceback:%s' % rr.exc_frame, 'trash-restore raised %s while listing (argv %r)' % (rr.exc, rs['argv']))
        return res
    if 'items' not in seen:
        seen['items'] = OR.parse_restore_items(rr.outs)
    if seen.get('items') is None:
        bad('listing-unparseable', 'stdout %r' % rr.outs[:400])
        return res
    if not seen.get('cand'):
        bad('not-listed', 'entry trashed from %r (as %s/files/%s) is not offered by %r run in %r; listing: %r'
            % (loc, T, N, rs['argv'], rs.get('cwd'), seen['items'][:6]))
        return res
    ci = seen['cand'][0]
    if (T + '/files/' + N) in snap3:
        if len(seen['cand']) > 1:
            return res       # an identical line belonged to another entry: interchangeable, nothing to judge
        bad('not-restored', 'reply %d did not take %s/files/%s out of the trash (exit %s) stderr %s' % (ci, T, N, rr.exit, rr.errs[-300:]))
        return res
    back = Wd.subtree(snap3, loc)
    if not Wd.same_tree(orig, back):
        diffs = [k for k in set(orig) | set(back) if not Wd.same_entry(orig.get(k), back.get(k))]
        bad('restored-differs', 'restored entry at %r differs from the original: %r' % (loc, [(k, orig.get(k), back.get(k)) for k in sorted(diffs)[:4]]))
    if (T + '/info/' + N + '.trashinfo') in snap3:
        bad('info-left', '.trashinfo of the restored entry still in the trash')
    removed, added, changed = Wd.diff(snap_before, snap3)
    exp_removed = set([T + '/info/' + N + '.trashinfo'] + [T + '/files/' + N + k for k in Wd.subtree(snap_before, T + '/files/' + N)])
    extra_removed = [p for p in removed if p not in exp_removed]
    parents = set()
    p = posixpath.dirname(loc)
    while p and p.strip('/') and posixpath.dirname(p) != p:
        parents.add(p)
        p = posixpath.dirname(p)
    extra_added = [p for p in added if not (p == loc or p.startswith(loc + '/') or (p in parents and snap3[p][0] == 'd'))]
    if extra_removed or extra_added or changed:
        bad('restore-frame', 'restore changed more than the entry: removed %r added %r changed %r' % (extra_removed[:4], extra_added[:4], changed[:4]))
    if rr.exit != 0:
        bad('restore-exit', 'restore of index %d exited %s; stderr %s' % (ci, rr.exit, rr.errs[-300:]))
    if not res:
        st.probes['roundtrip-ok'] += 1
        if case.get('note', {}).get('xdev'):
            st.probes['roundtrip-across-devices'] += 1
    if any(p in parents for p in added):
        st.probes['parent-recreated'] += 1
    tk = 'home'
    td = ML.topdir_of(T, mounts, None)
    if td is not None:
        tk = 'top' if posixpath.basename(posixpath.dirname(T)) == '.Trash' else 'alt'
        st.probes['top-trash' if tk == 'top' else 'volume-trash'] += 1
    if '--trash-dir' in put['argv']:
        tk = 'custom'
        st.probes['custom-trash-dir'] += 1
        if any(a.endswith('/tlink') for a in put['argv']):
            tk = 'custom-via-link'
            st.probes['trash-dir-through-cross-volume-symlink'] += 1
    if '\n' in loc:
        st.probes['name-with-newline'] += 1
    if N != posixpath.basename(loc):
        st.probes['collision-suffix'] += 1
    sc = case.get('note', {}).get('scope', '?')
    st.probes[{'ancestor': 'from-ancestor', 'root': 'from-root', 'arg': 'by-path-argument', 'arg_entry': 'by-path-argument'}.get(sc, 'from-ancestor')] += 1
    if between or parent_removed:
        st.distinct.add((named[0].ekind, tk, sort, sc, parent_removed))
    return res


def _replay_until_restore(sim, case, st):
    """rebuild the world and re-run everything but the final restore"""
    sim.setup(case)
    for spec in case['procs'][:-1]:
        if 'foreign' in spec:
            Wd.build(sim.root, {'steps': spec['foreign']})
        else:
            sim.run(spec)
            st.sims += 1
    return sim.snap()
