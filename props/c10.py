"""C10 - trash-empty DAYS purges exactly the entries trashed more than DAYS days
ago.  Engine H with a scripted clock: entry dates are placed around the
threshold (exactly DAYS days ago, +-1 s, +-1 day, far past, future)."""
from __future__ import annotations

import datetime as _dt
import posixpath

from gen import base as G
from gen import trashgen as TG
from model import bag as MB
from model import layout as ML
from oracles import readers as OR

ID = 'C10'
LEVEL = 'exploration'
ENGINE = 'history'
BUDGET = {'quick': 12000, 'thorough': 200000}
WALL = {'quick': 45, 'thorough': 1500}
RULE = ('one trash-empty [DAYS] per case over a trash whose entries have dates at now-DAYS+delta '
        '(delta in 0, +-1 s, +-1 day, year 1, future), malformed/duplicated/missing dates, several trash dirs; a quarter of the cases with 1 <= DAYS <= 366 run a trash-put of 1-2 fresh files '
        'concurrently under the seeded scheduler (uniform / PCT / sweep): those entries are dated now and must be kept whole; '
        'now from the simulated clock (local time with microseconds, on a machine whose UTC offset is 0, +1 h, -5 h, +5:30, +9:30, +14 h or -12 h) or TRASH_DATE; non-trivial = at least one entry on each '
        'side of the threshold or an entry exactly on it; distinct = (DAYS, clock source, sorted multiset of deltas)')
ASSUMPTIONS = ['DeletionDate values that strptime accepts but the spec format does not (single-digit fields) are not generated',
               'the concurrent-trash-put variant goes beyond the quantifier listed for C10 (inputs, histories): it only demands that an entry trashed '
               'DURING trash-empty DAYS (DAYS >= 1, fresh name, dated now) is kept whole - trash-empty without DAYS next to a running trash-put is not judged '
               '(an entry whose info exists but whose payload has not arrived yet can legitimately be seen half-way)']
PROBES = ['removed', 'kept', 'exactly-on-threshold', 'one-second-older', 'one-second-younger', 'undated-kept',
          'orphan-purged', 'trash_date_env', 'sim_clock', 'volume-trash-entry', 'duplicate-date-lines', 'far-past', 'future',
          'non-utc-zone', 'concurrent-put', 'fresh-entry-kept-whole']
TECHNIQUE = 'deterministic simulation with a scripted clock; threshold oracle on exact datetimes'
LEVEL_TEXT = ('seeded exploration of (DAYS, now, deletion date) with dates placed on and around the threshold, judged by exact '
              'datetime arithmetic on the clock values the command actually read')
LEVEL_NOTE = 'trusted: model date parser (spec format), simulated clock shim in trashcli.empty.main, snapshot function'

DELTAS = [0, 0, 1, -1, 2, -2, 86400, -86400, 3600, -3600, 59, -59]


def gen(rng):
    L = G.make_layout(rng, trash_states=[rng.choice(['absent', 'sticky']) for _ in range(4)],
                      alt_states=[rng.choice(['absent', 'dir']) for _ in range(4)],
                      xdg=rng.choice(['unset', 'set']))
    steps = L['steps']
    env = dict(L['env'])
    uid = L['uid']
    us = rng.choice([0, 0, 1, 500000, 999999, rng.randrange(10**6)])
    now = _dt.datetime(rng.choice([2024, 2024, 2000, 1999, 2038, 9998, 1971]), rng.randint(1, 12), rng.randint(1, 28),
                       rng.randint(0, 23), rng.randint(0, 59), rng.randint(0, 59), us)
    days = rng.choice([0, 0, 1, 1, 2, 7, 30, 365, 366, 10**5, 999999999, None, None])
    use_env = rng.random() < 0.35
    if use_env:
        env['TRASH_DATE'] = rng.choice([TG.iso(now), TG.iso(now), 'garbage'])
    locs = [t for t in TG.trash_locations(L) if t[2]]
    n = rng.choice([1, 2, 3, 4, 6, 10])
    d_eff = days if days is not None else rng.choice([0, 1, 30])
    for i in range(n):
        tdir, top, _u = rng.choice(locs)
        nm = 'e%d' % i
        loc = (L['home'] + '/w/' + nm) if top is None else (L['work'][top] + '/' + nm)
        if rng.random() < 0.04:
            # a deep location of multi-byte names: the escaped Path line is 5-12 KB long and the DeletionDate comes after it
            loc = posixpath.dirname(loc) + '/' + '/'.join(rng.choice(['é', 'ж', '日']) * rng.choice([60, 80]) + str(k_) for k_ in range(rng.randint(9, 13))) + '/' + nm
        pv = TG.pct(loc if top is None else loc[len(top) + 1:])
        r = rng.random()
        base = now.replace(microsecond=0)
        date_s = None
        extra = ''
        try:
            thr = base - _dt.timedelta(days=d_eff)
        except OverflowError:
            thr = _dt.datetime(1, 1, 2)
        if r < 0.6:
            try:
                date_s = TG.iso(thr + _dt.timedelta(seconds=rng.choice(DELTAS)))
            except OverflowError:
                date_s = '0001-01-01T00:00:00'
        elif r < 0.68:
            date_s = rng.choice(['0001-01-01T00:00:00', '1970-01-01T00:00:00', '1900-02-28T23:59:59'])
        elif r < 0.76:
            date_s = rng.choice(['9999-12-31T23:59:59', TG.iso(base + _dt.timedelta(days=1)), TG.iso(base + _dt.timedelta(seconds=1))])
        elif r < 0.84:
            date_s = None        # missing
        elif r < 0.92:
            date_s = rng.choice(['garbage', '2020-13-01T00:00:00', '2020-02-30T00:00:00', '', 'T', '2020-01-01'])
        else:
            # duplicated DeletionDate lines: the first one counts
            try:
                first = TG.iso(thr + _dt.timedelta(seconds=rng.choice([-1, 0, 1])))
            except OverflowError:
                first = '0001-01-01T00:00:00'
            date_s = first
            extra = 'DeletionDate=%s\n' % rng.choice(['0001-01-01T00:00:00', '9999-01-01T00:00:00', 'junk'])
            if rng.random() < 0.5:
                # the FIRST line is malformed, a later one is a proper (old or young) date: the first line decides - no usable date
                date_s = rng.choice(['junk', '', '2020-13-01T00:00:00', '2003-03-03T10:00:00Z', ' 2001-01-01T00:00:00'])
                extra = 'DeletionDate=%s\n' % rng.choice(['0001-01-01T00:00:00', '1999-01-01T00:00:00', first, '9999-01-01T00:00:00'])
        content = '[Trash Info]\nPath=%s\n' % pv
        if date_s is not None:
            content += 'DeletionDate=%s\n' % date_s
        content += extra
        if rng.random() < 0.06:
            # written on the Windows side of a shared volume / by a sync tool / an editor set to DOS line ends: CR LF (or bare CR)
            # line ends - a text file like any other, the date is the date
            content = content.replace('\n', rng.choice(['\r\n', '\r\n', '\r']))
        G.add_trashed(steps, tdir, nm, pv, None, rng.choice(['file', 'dir', 'link', 'none']), info_content=content, tag=str(i))
        if rng.random() < 0.08:
            # next to it an entry called <name>.trashinfo (a stray info file somebody trashed), with a date of its own on the other
            # side of the threshold or not: each of the two is judged by its own date
            try:
                d2_ = TG.iso(thr + _dt.timedelta(seconds=rng.choice([-86400 * 5, -1, 1, 86400 * 5])))
            except OverflowError:
                d2_ = '0001-01-01T00:00:00'
            G.add_trashed(steps, tdir, nm + '.trashinfo', pv + '.trashinfo', None, rng.choice(['file', 'dir']),
                          info_content='[Trash Info]\nPath=%s.trashinfo\nDeletionDate=%s\n' % (pv, d2_), tag='%d-ti' % i)
    if rng.random() < 0.4:
        tdir = rng.choice(locs)[0]
        steps.append(['d', tdir + '/files', 0o700])
        steps.append(['f', tdir + '/files/orphan_payload', 'o', 0o644])
    if rng.random() < 0.12:
        # an entry whose .trashinfo cannot be read at all (a symlink to a file on an unplugged drive, a link loop, a link to a
        # directory): it has no usable date - with DAYS it is kept, whole
        TG.add_malformed(rng, steps, rng.choice(locs)[0], rng.choice(['info_dangling_link', 'info_loop_link', 'info_link_to_dir']), 'u')
    argv = ['trash-empty']
    if rng.random() < 0.2:
        argv.append(rng.choice(['-v', '-f']))
    if days is not None:
        argv.append(str(days))
    procs = [{'argv': argv, 'env': env, 'cwd': '/', 'uid': uid}]
    sched = None
    if days is not None and 1 <= days <= 366 and not use_env and rng.random() < 0.25:
        # a trash-put of the same user runs at the same time: what it trashes is dated 'now', so trash-empty DAYS (>= 1) must keep it
        # whole - info and payload - whatever the interleaving
        tdir, top, _u = rng.choice(locs)
        wd = (L['home'] + '/w') if top is None else L['work'][top]
        fresh = []
        for j in range(rng.randint(1, 2)):
            steps.append(['f', wd + '/fresh%d' % j, 'fresh content %d' % j, 0o644])
            fresh.append(wd + '/fresh%d' % j)
        procs.append({'argv': ['trash-put', '--'] + fresh, 'env': env, 'cwd': '/', 'uid': uid})
        sched = {'strategy': rng.choice(['uniform', 'uniform', 'pct', 'sweep', 'sweep']), 'seed': rng.randrange(1 << 30), 'depth': rng.randint(1, 3),
                 'sweep': {'pid': rng.choice([1, 1, 2]), 'k': rng.randrange(0, 40)}}
    return {
        # (6 % of the worlds with volumes: one of them is under systemd / autofs automount control - the mount table names its
        # mount point twice, the autofs placeholder first)
        'world': dict({'mounts': L['mounts'], 'steps': steps}, **({'automount': [rng.choice(L['vols'])]} if L['vols'] and rng.random() < 0.06 else {})),
        'procs': procs,
        'sched': sched,
        'dirsalt': rng.randrange(1 << 30),
        'clock': {'start': now.strftime('%Y-%m-%dT%H:%M:%S.%f'), 'tick_us': rng.choice([0, 0, 137, 400000]),
                  # the simulated machine's zone: DeletionDate values are local times, so must be the 'now' they are compared with
                  'utcoffset_s': rng.choice([0, 3600, -18000, 19800, 34200, 50400, -43200]),
                  # does the zone have DST rules (time.daylight) and is DST in effect now (tm_isdst)? utcoffset_s is the offset in effect
                  'dst': rng.choice([None, None, {'has': True, 'on': True}, {'has': True, 'on': False}])},
    }


def days_of(spec):
    return ' '.join(a for a in spec['argv'][1:] if not a.startswith('-'))


def pin(case, sig):
    """a replay uses the recorded choice list, not the PRNG"""
    import copy
    c = copy.deepcopy(case)
    if c.get('sched'):
        rec = c['sched'].pop('recorded', None)
        if rec is not None:
            c['sched']['choices'] = rec
            c['sched']['strategy'] = 'replay'
    return c


def check(sim, case, st):
    sim.setup(case)
    spec = case['procs'][0]
    env, uid = spec.get('env', {}), spec.get('uid', 1000)
    mounts = OR.mounts_of(case)
    snap0 = sim.snap()
    bag0 = OR.scan(sim, snap0, env, uid, mounts)
    orph0 = [(T, N) for T, _b, _k in MB.usable_trash_dirs(snap0, env, uid, mounts) for N in MB.orphans(snap0, T)]
    from sim import proc as P
    local0 = P.CLOCK.now
    res = []
    if len(case['procs']) > 1 and case.get('sched'):
        import random as _random
        from oracles import put as OP
        from sim import sched as SS
        put = case['procs'][1]
        named = [OP.name_entry(sim.root, put.get('cwd', '/'), a, snap0, mounts) for a in put['argv'][put['argv'].index('--') + 1:]]
        sc = case['sched']
        chooser = SS.Chooser(_random.Random(sc.get('seed', 0)), sc.get('strategy', 'uniform'), nprocs=2, choices=sc.get('choices'),
                             depth=sc.get('depth', 2), est_ops=300, sweep=sc.get('sweep'))
        skel = OP.candidate_skeleton(env, uid, mounts)
        shared = sorted(set(posixpath.dirname(posixpath.dirname(p_)) for p_ in skel if p_.endswith('/files')))
        results, sch = SS.run_concurrent(sim, [spec, put], chooser, shared_prefixes=tuple(shared))
        r, rp = results
        case['sched']['recorded'] = list(chooser.recorded)
        st.probes['concurrent-put'] += 1
        st.probes['context-switches'] += sch.switches
        # the empty process read the clock; the put's readings belong to the put
        r.clock = [x[1] for x in P.CLOCK.readings if x[0] == r.pid]
        snap1 = sim.snap()
        outs, probs = OP.judge(sim.root, snap0, snap1, named, mounts, skel)
        for clause, detail, nm in probs:
            if nm is None and clause == 'unexplained-removal':
                continue        # what trash-empty removed is judged below, entry by entry
            res.append(('C10/concurrent-put/%s' % clause, 'trash-empty %s with a concurrent trash-put: %s %s (strategy %s, %d switches, exits %s/%s)\nstderr: %s | %s'
                        % (days_of(spec), clause, detail if nm is None else nm.arg, sc.get('strategy'), sch.switches, r.exit, rp.exit, r.errs[-300:], rp.errs[-300:])))
        for o in outs:
            if o.state == 'trashed':
                st.probes['fresh-entry-kept-whole'] += 1
            elif rp.exit == 0:
                res.append(('C10/concurrent-put/fresh-entry-not-whole:%s' % o.state, 'trash-put exited 0 but %r is %s %s after the concurrent trash-empty %s'
                            % (o.named.arg, o.state, o.why, days_of(spec))))
    else:
        r = sim.run(spec)
        snap1 = sim.snap()
    st.sims += 1
    st.ops += r.nops
    days = None
    for a in spec['argv'][1:]:
        if not a.startswith('-'):
            try:
                days = int(a)
            except ValueError:
                return []
    # which 'now' did the command use?
    td = env.get('TRASH_DATE')
    nows = None
    src = 'clock'
    if td is not None:
        try:
            fixed = _dt.datetime.strptime(td, '%Y-%m-%dT%H:%M:%S')
            nows = (fixed, fixed)
            src = 'env'
            st.probes['trash_date_env'] += 1
        except ValueError:
            pass
    if nows is None and r.clock:
        nows = (min(r.clock), max(r.clock))
        st.probes['sim_clock'] += 1
    elif nows is None:
        # the command never asked the time (it can only have stopped early): the local time at which it ran still decides
        nows = (local0, local0)
        st.probes['no-clock-reading'] += 1
    if case.get('clock', {}).get('utcoffset_s'):
        st.probes['non-utc-zone'] += 1
    deltas = []
    for e in bag0:
        gone = OR.pair_gone(snap1, e)
        intact = OR.pair_intact(snap0, snap1, e) if e.has_payload else \
            (snap1.get((ML.resolve(snap1, e.tdir) or '') + '/info/' + e.name + '.trashinfo') is not None)
        if not gone and not intact:
            res.append(('C10/half-removed', 'entry %r neither removed whole nor left intact (argv %r, exit %s)\nstderr: %s'
                        % (e, spec['argv'], r.exit, r.errs[-400:])))
            continue
        if days is None:
            if not gone:
                res.append(('C10/empty-all-left-entry', 'trash-empty without DAYS left %r (exit %s)\nstderr: %s' % (e, r.exit, r.errs[-400:])))
            else:
                st.probes['removed'] += 1
            continue
        if e.date is None:
            if gone:
                res.append(('C10/undated-removed', 'entry %r has no parseable date but trash-empty %d removed it (raw %r)'
                            % (e, days, e.raw)))
            else:
                st.probes['undated-kept'] += 1
            continue
        try:
            lim_lo = nows[0] - _dt.timedelta(days=days)
            lim_hi = nows[1] - _dt.timedelta(days=days)
        except OverflowError:
            lim_lo = lim_hi = None     # now - DAYS is before year 1: nothing is older
        must = lim_lo is not None and e.date < lim_lo
        may = lim_hi is not None and e.date < lim_hi
        if lim_lo is not None:
            dsec = (e.date - lim_lo.replace(microsecond=0)).total_seconds()
            deltas.append(int(max(-10**6, min(10**6, dsec))))
            if dsec == 0:
                st.probes['exactly-on-threshold'] += 1
            elif dsec == -1:
                st.probes['one-second-older'] += 1
            elif dsec == 1:
                st.probes['one-second-younger'] += 1
        if e.date.year < 1971:
            st.probes['far-past'] += 1
        if e.date > nows[1]:
            st.probes['future'] += 1
        if e.raw and e.raw.count(b'DeletionDate=') > 1:
            st.probes['duplicate-date-lines'] += 1
        if e.kind != 'home':
            st.probes['volume-trash-entry'] += 1
        if gone and not may:
            res.append(('C10/removed-too-young/%s' % src,
                        'trash-empty %d removed %r although its date %s is not earlier than now-DAYS (now in [%s, %s])'
                        % (days, e, e.date, nows[0], nows[1])))
        elif not gone and must:
            res.append(('C10/kept-too-old/%s' % src,
                        'trash-empty %d kept %r although its date %s is earlier than now-DAYS = %s (exit %s)\nstderr: %s'
                        % (days, e, e.date, lim_lo, r.exit, r.errs[-300:])))
        st.probes['removed' if gone else 'kept'] += 1
    if days is None:
        for T, N in orph0:
            real = ML.resolve(snap1, T)
            if real and (real + '/files/' + N) in snap1:
                res.append(('C10/orphan-left', 'trash-empty without DAYS left the payload without info %s/files/%s' % (T, N)))
            else:
                st.probes['orphan-purged'] += 1
    if deltas and (min(deltas) < 0 <= max(deltas) or 0 in deltas):
        st.distinct.add((days, src, tuple(sorted(deltas))))
    st.simtime += 0
    seen, out = set(), []
    for s, m in res:
        if s not in seen:
            seen.add(s)
            out.append((s, m))
    return out
