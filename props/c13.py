"""C13 - trash-restore offers the right entries and restores exactly the
indices chosen."""
from __future__ import annotations

import collections
import posixpath

from gen import base as G
from gen import trashgen as TG
from model import layout as ML
from model import reply as MR
from oracles import readers as OR
from props.c09 import restore_scope
from sim import world as Wd

ID = 'C13'
LEVEL = 'exploration'
ENGINE = 'history'
BUDGET = {'quick': 10000, 'thorough': 200000}
WALL = {'quick': 45, 'thorough': 1500}
RULE = ('one trash-restore per case: trash with prefix-sharing original locations (/a/foo, /a/foobar, /a/foo/x, deep paths) '
        'over several volumes; scope = cwd or path argument; --sort date|path|none; reply from a grammar fuzzer (digits , - '
        'blanks signs letters, reversed/duplicate/huge ranges, EOF); non-trivial = listing has >= 2 entries and the reply is '
        'non-empty; distinct = (sort, list length, reply shape, outcome)')
ASSUMPTIONS = ['no entry exists at the original locations beforehand (clobbering is C06)',
               'replies whose tokens int() accepts but are not plain digit strings (+1, " 1", 1_0) may be read either way',
               'the reply grammar itself is a pure function of the reply; the simulator contributes sorting, scoping and the effect on disk']
PROBES = ['valid-reply', 'invalid-reply', 'empty-reply', 'eof', 'range', 'sort-none', 'sort-path', 'sort-date',
          'scope-excludes-sibling-prefix', 'restored', 'scope-by-argument', 'tie-in-sort-key',
          'nested-or-same-location-selection', 'nested-selection-all-free-in-reply-order', 'junk-next-to-the-entries', 'same-path-same-second-twice']
TECHNIQUE = 'deterministic simulation of trash-restore with fuzzed replies; listing/scoping/selection compared with an independent reply parser and scope predicate'
LEVEL_TEXT = 'seeded exploration of reply strings x location sets x sort modes; what is printed at an index must be what is restored'
LEVEL_NOTE = 'trusted: model/reply.py, model/bag.py; sampled'


def reply_shape(s):
    out = ''
    for c in s:
        k = 'd' if c.isdigit() else (c if c in ',-+ ' else 'x')
        if not (k == 'd' and out.endswith('d')):
            out += k
    return out[:12]


def gen_reply(rng, n):
    r = rng.random()
    i = rng.randrange(max(1, n))
    j = rng.randrange(max(1, n))
    if r < 0.04 and n > 10:
        # bounds with a different number of digits (their order as text is not their order as numbers)
        return '%d-%d' % (rng.randint(2, 9), rng.randint(10, n - 1))
    if r < 0.07 and n >= 3:
        a_ = rng.randrange(n - 1)
        b_ = rng.randrange(a_ + 1, n)
        return rng.choice(['%d-0%d' % (a_, b_), '%d-+%d' % (a_, b_), '0%d-%d' % (a_, b_), '%d - %d' % (a_, b_)])
    if r < 0.25:
        return str(i)
    if r < 0.40:
        return '%d-%d' % (min(i, j), max(i, j))
    if r < 0.50:
        return ','.join(str(rng.randrange(max(1, n))) for _ in range(rng.randint(2, 4)))
    if r < 0.58:
        return '%d,%d-%d' % (i, min(i, j), max(i, j))
    if r < 0.64:
        return ''
    if r < 0.70:
        return rng.choice([str(n), str(n + 5), '0-%d' % n, '%d-%d' % (n, n + 2), '999999999999', '0-99999999999999', '-1', '1-', '-', ',',
                           '0,', ',0', '0,,1', '1-2-3', '--', 'a', '0,a', 'a-b', '0x1', '1.0', '0 1', '1e0'])
    if r < 0.76:
        return '%d-%d' % (max(i, j), min(i, j))       # reversed
    if r < 0.84:
        return rng.choice([' %d' % i, '%d ' % i, '+%d' % i, '%d , %d' % (i, j), '0_0', '٣', ' %d - %d ' % (min(i, j), max(i, j))])
    alphabet = '0123456789,-, -+ax'
    return ''.join(rng.choice(alphabet) for _ in range(rng.randint(1, 7)))


def gen(rng):
    L = G.make_layout(rng, trash_states=[rng.choice(['absent', 'sticky']) for _ in range(4)],
                      alt_states=[rng.choice(['absent', 'dir']) for _ in range(4)],
                      home_mode=rng.choice(['root', 'root', 'homevol']))
    steps = L['steps']
    home = L['home']
    locs = [t for t in TG.trash_locations(L) if t[2]]
    bases = {None: [home + '/a', home + '/a/foo', home + '/a/foobar', home + '/ab', home, '/tmp', home + '/a/deep/er/still']}
    cand = ['foo', 'foobar', 'fo', 'x', 'foo_1', 'zeta', 'Alpha', 'bar baz']
    n = rng.choice([0, 1, 2, 3, 4, 6, 9, 12])
    if rng.random() < 0.003:
        n = rng.choice([101, 257, 1001, 1025]) + rng.choice([0, 1, 3])      # a list past a round length: indices of 3 and 4 digits
    used = set()
    twins = [0]
    deep_ = [0]
    dates = [TG.rand_date(rng) for _ in range(4)]
    dstmode = rng.random() < 0.12
    if dstmode:
        # the machine's zone has DST rules and the entries are dated around a change (written elsewhere, or before the zone was
        # changed): DeletionDates are literal wall-clock readings and are ordered as such
        dates = TG.dst_edge_dates(rng)
    for i in range(n):
        tdir, top, _u = rng.choice(locs) if rng.random() >= 0.12 else ('/.Trash-%d' % L['uid'], '/', True)
        if top is None:
            d = rng.choice(bases[None])
        elif top == '/':
            # the top-directory trash of the volume mounted at / (which, with home on /, is also the home trash's volume)
            d = rng.choice(['/srv', '/srv/a', '/opt', home + '/a'])
        else:
            d = rng.choice([top + '/a', top + '/a/foo', top + '/ab', top])
        loc = d + '/' + rng.choice(cand) + ('-%d' % i if n > 100 and i >= 8 else '')
        if rng.random() < 0.04 and n <= 100:
            # a deep location of multi-byte names (far below PATH_MAX): its escaped Path value is three times as long, 5-10 KB
            loc = d + '/' + '/'.join(rng.choice(['é', 'ж', '日']) * rng.choice([60, 80]) + str(k_) for k_ in range(rng.randint(9, 12))) + '/' + rng.choice(cand)
            deep_[0] += 1
        if loc in used:
            continue
        if any(u.startswith(loc + '/') or loc.startswith(u + '/') for u in used) and rng.random() < 0.6:
            # nested original locations (a file trashed from inside a directory, then the directory) are kept in 40 % of the draws
            continue
        used.add(loc)
        pv = TG.pct(loc if top is None else (loc[1:] if top == '/' else loc[len(top) + 1:]))
        date = rng.choice(dates) if (dstmode or rng.random() < 0.4) else TG.rand_date(rng)
        G.add_trashed(steps, tdir, 't%d' % i, pv, TG.iso(date), rng.choice(['file', 'dir', 'link']), tag=str(i))
        if rng.random() < 0.08 and n <= 100:
            # next to t<i> an entry called t<i>.trashinfo (a stray info file that somebody trashed), trashed from the sibling location
            G.add_trashed(steps, tdir, 't%d.trashinfo' % i, pv + '.trashinfo', TG.iso(rng.choice(dates) if dstmode else TG.rand_date(rng)),
                          rng.choice(['file', 'dir']), tag='%d-ti' % i)
            twins[0] += 1
        if rng.random() < 0.08:
            # the same path trashed again within the same second (a script that trashes and recreates a file): two entries, two lines
            # (a third of these twins carry a date that is not in the spec's format - written by another tool: an undated generation
            # of the same path)
            tdate = TG.iso(date) if rng.random() < 0.67 else rng.choice(['2003-03-03T10:00:00+01:00', 'yesterday', ''])
            G.add_trashed(steps, tdir, 't%d_1' % i, pv, tdate, rng.choice(['file', 'dir']), tag='%d-twin' % i)
            twins[0] += 1
    if rng.random() < 0.08 and not any(u == home + '/a/deep' or u.startswith(home + '/a/deep/') for u in used if u.count('/') < 5):
        # after the entries were trashed a directory of the path of some of them was replaced by a symlink that leads elsewhere
        # (out of the requested directory, or - for /tmp/lnkin - into it): an entry belongs to the directory its RECORDED location
        # is in, whatever the file system looks like today
        steps.append(['d', home + '/a', 0o755])
        steps.append(['l', home + '/a/deep', rng.choice(['/tmp', home + '/ab', '../ab'])])
        steps.append(['l', '/tmp/lnkin', home + '/a'])
        pv_ = TG.pct('/tmp/lnkin/was-in-tmp')
        G.add_trashed(steps, G.home_trash_of(L['env']), 'tlink', pv_, TG.iso(TG.rand_date(rng)), 'file', tag='tlink')
        twins[0] += 1
    if rng.random() < 0.2:
        # junk next to the entries (an empty .trashinfo left by an interrupted put, an unreadable one ...): everything that is
        # well-formed and in scope is still listed, numbered and restorable
        for j in range(rng.randint(1, 2)):
            TG.add_malformed(rng, steps, rng.choice(locs)[0], rng.choice(['empty', 'truncated', 'nopath', 'binary', 'only_header', 'dir_in_info',
                                                                          'infodir_named_trashinfo', 'info_dangling_link', 'stray_dangling_link']), 'j%d' % j)
    nested = rng.random() < 0.15
    if nested:
        # a file trashed from inside a directory, then the directory itself (and possibly its parent): restoring the outer one
        # first and the inner one into it works, the other way round the outer one finds its destination occupied
        tdir, top, _u = rng.choice(locs)
        root = (home if top is None else top) + '/nest%d' % rng.randrange(3)
        chain = [root, root + '/in', root + '/in/ner'][:rng.randint(2, 3)]
        rng.shuffle(chain)
        for j, loc in enumerate(chain):
            if loc in used:
                continue
            used.add(loc)
            pv = TG.pct(loc if top is None else loc[len(top) + 1:])
            G.add_trashed(steps, tdir, 'n%d' % j, pv, TG.iso(rng.choice(dates) if rng.random() < 0.3 else TG.rand_date(rng)),
                          rng.choice(['dir', 'dir', 'file']), tag='n%d' % j)
    for d in [home + '/a', home + '/ab', home + '/a/sub']:
        steps.append(['d', d, 0o755])
    cwd = rng.choice(['/', home, home + '/a', home + '/ab', home + '/a/sub'] + L['vols'])
    argv = ['trash-restore']
    sort = rng.choice(['date', 'path', 'none', None])
    if sort:
        argv += rng.choice([['--sort', sort], ['--sort=' + sort]])
    if rng.random() < 0.4:
        argv.append(rng.choice(['/', home + '/a', home + '/a/foo', home + '/a/fo', home + '/ab', 'a', '../ab', '.', home + '/a/'] +
                               [v + '/a' for v in L['vols']]))
    reply = gen_reply(rng, min(n + twins[0], 12))
    if nested:
        m = len(used)
        perm = list(range(m))
        rng.shuffle(perm)
        reply = rng.choice([','.join(map(str, perm)), ','.join(map(str, perm[:3])), '0-%d' % (m - 1), ','.join(map(str, reversed(range(m)))), reply])
        if rng.random() < 0.7:
            argv = [a for a in argv if a == 'trash-restore' or a.startswith('--sort') or a in ('date', 'path', 'none')] + ['/']
    if rng.random() < 0.1 and not twins[0] and not nested:
        # --overwrite changes nothing about WHAT is offered and restored (the destinations are free here; most of their
        # directories do not exist any more)
        argv.insert(1, '--overwrite')
    stdin = reply + '\n' if rng.random() < 0.9 else (reply if rng.random() < 0.5 else '')
    return dict({
        # (6 % of the worlds with volumes: one of them is under systemd / autofs automount control - the mount table names its
        # mount point twice, the autofs placeholder first)
        'world': dict({'mounts': L['mounts'], 'steps': steps}, **({'automount': [rng.choice(L['vols'])]} if L['vols'] and rng.random() < 0.06 else {})),
        'procs': [{'argv': argv, 'env': L['env'], 'cwd': cwd, 'uid': L['uid'], 'stdin': stdin}],
        'dirsalt': rng.randrange(1 << 30),
    }, **({'clock': TG.dst_clock(rng)} if dstmode else {}))


def sort_mode(argv):
    m = 'date'
    for i, a in enumerate(argv):
        if a == '--sort' and i + 1 < len(argv):
            m = argv[i + 1]
        elif a.startswith('--sort='):
            m = a[7:]
    return m


def check(sim, case, st):
    sim.setup(case)
    spec = case['procs'][0]
    env, uid = spec.get('env', {}), spec.get('uid', 1000)
    mounts = OR.mounts_of(case)
    snap0 = sim.snap()
    if ML.resolve(snap0, spec.get('cwd', '/')) is None:
        return []
    bag0 = OR.scan(sim, snap0, env, uid, mounts)
    r = sim.run(spec)
    st.sims += 1
    st.ops += r.nops
    snap1 = sim.snap()
    bag1 = OR.scan(sim, snap1, env, uid, mounts)
    removed, added = OR.removed_added(bag0, bag1)
    res = []
    sm = sort_mode(spec['argv'])
    st.probes['sort-' + sm] += 1
    if len(set((str(e.date), e.location) for e in bag0 if e.location)) < len([e for e in bag0 if e.location]):
        st.probes['same-path-same-second-twice'] += 1
    if any('mal_' in k for k in snap0):
        st.probes['junk-next-to-the-entries'] += 1

    def bad(clause, msg):
        res.append(('C13/%s/sort=%s' % (clause, sm), msg + ' (argv %r, cwd %r, stdin %r, exit %s)\nstderr: %s'
                    % (spec['argv'], spec.get('cwd'), spec.get('stdin'), r.exit, r.errs[-500:])))

    # an uncaught exception is an ugly way to exit non-zero, but it is judged by
    # its effects like any other outcome (the statement does not forbid it)
    if r.exc is not None:
        st.probes['traceback-exit'] += 1
    scope = restore_scope(sim, spec, snap0)
    inscope = [e for e in bag0 if e.location is not None and MR.in_scope(e.location, scope)]
    if any(a for a in spec['argv'][1:] if not a.startswith('-') and a not in ('date', 'path', 'none')):
        st.probes['scope-by-argument'] += 1
    if any(e.location is not None and e.location.startswith(scope) and not MR.in_scope(e.location, scope) for e in bag0):
        st.probes['scope-excludes-sibling-prefix'] += 1
    listing = OR.parse_restore_listing(r.outs)
    if listing is None:
        bad('listing-unparseable', 'stdout %r' % r.outs[:300])
        return _dedup(res)
    if r.exc is not None and not listing and inscope:
        bad('not-offered:%s' % r.exc_frame, 'trash-restore raised %s before offering the %d entries in scope' % (r.exc, len(inscope)))
        return _dedup(res)
    exp = collections.Counter((str(e.date) if e.date else 'None', e.location) for e in inscope)
    got = collections.Counter((d, p) for _i, d, p in listing)
    if exp != got:
        bad('listing-set', 'scope %r: listed %r, model says %r' % (scope, sorted(got.elements()), sorted(exp.elements())))
        return _dedup(res)
    # ordering
    if sm == 'date':
        # (where entries WITHOUT a readable date go is not specified: the dated ones are in date order)
        keys = [d for _i, d, _p in listing if d != 'None']
    elif sm == 'path':
        # by path, the date breaking ties (NOT by the concatenation path+date, under which '/a/foo.txt' and '/a/foo/x' come
        # before '/a/foo' because '.' and '/' sort below the first digit of the date)
        # (between two generations of one path of which one has no readable date the order is not specified)
        undated = set(p for _i, d, p in listing if d == 'None')
        keys = [(p, d if p not in undated else '') for _i, d, p in listing]
    else:
        keys = None
    if keys is not None:
        if any(keys[k] > keys[k + 1] for k in range(len(keys) - 1)):
            bad('listing-order', 'listing not sorted by %s: %r' % (sm, listing))
        if len(set(keys)) < len(keys):
            st.probes['tie-in-sort-key'] += 1
    stdin = spec.get('stdin', '')
    if not listing:
        if removed or added:
            bad('changed-with-empty-listing', 'bag changed: -%r +%r' % (removed, added))
        return _dedup(res)
    if stdin == '':
        st.probes['eof'] += 1
        line = None
    else:
        line = stdin.split('\n', 1)[0]
    rem = collections.Counter((str(e.date) if e.date else 'None', e.location) for e in removed)
    outcome = 'none'
    if line is None or line == '':
        if line == '':
            st.probes['empty-reply'] += 1
        if removed:
            bad('empty-reply-restored', '%r left the trash' % removed)
    else:
        idxs, det = MR.parse(line, len(listing))
        if '-' in line:
            st.probes['range'] += 1
        if idxs is None:
            st.probes['invalid-reply'] += 1
            outcome = 'invalid'
            if det:
                if removed:
                    bad('invalid-reply-restored', 'reply %r is invalid for %d entries but %r left the trash' % (line, len(listing), removed))
                if r.exit == 0:
                    bad('invalid-reply-exit0', 'reply %r is invalid for %d entries but the exit status is 0' % (line, len(listing)))
                if Wd.diff(snap0, snap1) != ([], [], []):
                    bad('invalid-reply-changed-disk', 'reply %r invalid but the disk changed: %r' % (line, Wd.diff(snap0, snap1)))
        elif det:
            st.probes['valid-reply'] += 1
            outcome = 'valid'
            sel_idx = sorted(set(idxs))
            sel = collections.Counter((listing[i][1], listing[i][2]) for i in sel_idx)
            locs = [listing[i][2] for i in sel_idx]
            clash = len(set(locs)) < len(locs) or any(a != b and (a.startswith(b + '/')) for a in locs for b in locs)
            if rem - sel:
                bad('restored-unselected', 'reply %r selects %r but %r left the trash' % (line, sorted(sel.elements()), sorted(rem.elements())))
            elif not clash and sel != rem:
                bad('selected-not-restored', 'reply %r selects %r but only %r left the trash' % (line, sorted(sel.elements()), sorted(rem.elements())))
            elif clash:
                # selected locations nest or coincide: restoring one of them can occupy the destination of another (refusing that
                # one is C06's business).  Sequential model in the order the reply names the indices: if in THAT order every
                # destination is free when its turn comes, all of them must be restored.
                st.probes['nested-or-same-location-selection'] += 1
                order = []
                for i in idxs:
                    if i not in order:
                        order.append(i)
                kind = dict((k, v[0]) for k, v in snap0.items())
                bykey = {}
                for e in bag0:
                    if e.location is not None:
                        bykey.setdefault((str(e.date) if e.date else 'None', e.location), []).append(e)
                all_free, known = True, True
                for i in order:
                    loc = listing[i][2]
                    ents = bykey.get((listing[i][1], loc), [])
                    if len(ents) != 1:
                        known = False
                        break
                    anc, a = [], posixpath.dirname(loc)
                    while a not in ('/', ''):
                        anc.append(a)
                        a = posixpath.dirname(a)
                    if kind.get(loc) is not None or any(kind.get(a) not in (None, 'd') for a in anc):
                        all_free = False
                        break
                    for a in anc:
                        kind.setdefault(a, 'd')
                    for rel, v in OR.payload_tree(snap0, ents[0]).items():
                        kind[loc + rel] = v[0]
                if known and all_free:
                    st.probes['nested-selection-all-free-in-reply-order'] += 1
                    if sel != rem:
                        bad('selected-not-restored-in-reply-order',
                            'reply %r selects %r; restored in the order the reply names them every destination is free at its turn, '
                            'but only %r left the trash' % (line, [listing[i][2] for i in order], sorted(rem.elements())))
                    elif r.exit != 0:
                        bad('all-restored-but-exit-nonzero', 'reply %r: every selected entry was restored but the exit status is %s' % (line, r.exit))
            for e in removed:
                st.probes['restored'] += 1
                want = OR.payload_tree(snap0, e)
                have = Wd.subtree(snap1, e.location)
                if e.location not in snap1:
                    # (a directory on the recorded path may be a symlink today: where the kernel takes that path)
                    d_, b_ = posixpath.split(e.location)
                    rd_ = ML.resolve(snap1, d_)
                    if rd_:
                        have = Wd.subtree(snap1, (rd_ if rd_ != '/' else '') + '/' + b_)
                if not clash and not Wd.same_tree(want, have):
                    bad('restored-content', 'entry %r: destination does not hold the trashed payload' % (e,))
                if not OR.pair_gone(snap1, e):
                    bad('restored-but-pair-left', 'entry %r restored but payload/info still in the trash' % (e,))
        for e in bag0:
            if e.key() not in set(x.key() for x in removed) and not OR.pair_intact(snap0, snap1, e) and e.has_payload:
                bad('unselected-modified', 'entry %r was not restored but its pair changed' % (e,))
    if len(listing) >= 2 and line:
        st.distinct.add((sm, len(listing), reply_shape(line), outcome))
    return _dedup(res)


def _dedup(res):
    seen, out = set(), []
    for s, m in res:
        if s not in seen:
            seen.add(s)
            out.append((s, m))
    return out
