"""C20 - all commands read a trash directory the same way (and the way the
spec says).  Engine D: one foreign .trashinfo per case; trash-list,
trash-restore, trash-rm and trash-empty are each run on an identically
rebuilt world and their readings of path and date compared with each other
and with the spec-level decoder."""
from __future__ import annotations

import copy
import datetime as _dt
import posixpath

from gen import base as G
from gen import trashgen as TG
from model import bag as MB
from model import layout as ML
from model import trashinfo as TI
from oracles import readers as OR
from props.c03 import glob_literal
from sim import world as Wd

ID = 'C20'
LEVEL = 'exploration'
ENGINE = 'differential'
BUDGET = {'quick': 4000, 'thorough': 80000}
WALL = {'quick': 45, 'thorough': 1500}
RULE = ('one foreign .trashinfo per case (absolute / relative Path, percent-escapes of arbitrary bytes, raw +, duplicate keys, extra keys and '
        'sections, missing header, CRLF, trailing blanks) in the home trash (home on / or on its own volume), .Trash/$uid, .Trash-$uid or a '
        '--trash-dir; five rebuilt copies of the world: list, restore, rm <exact path>, empty D at the threshold and one second later; '
        'distinct = (content features, trash-dir kind, home mode)')
ASSUMPTIONS = ['for a relative Path in the home trash the spec defines no base: only agreement between the commands is required there',
               'trash-rm has no --trash-dir option and is skipped for custom trash directories']
PROBES = ['list-files-mode-compared', 'undecodable-in-this-locale', 'trash-dir-on-a-volume-missing-from-the-partition-listing', 'twin-entries', 'path-value-over-4k', 'trash-dir-through-cross-volume-symlink', 'several-trash-dir-options', 'four-way-agree', 'relative-path', 'absolute-path', 'home-own-volume', 'custom-trash-dir', 'duplicate-keys', 'crlf', 'escapes',
          'non-utf8-escape', 'empty-threshold-checked', 'rm-checked', 'restore-checked', 'undated']
TECHNIQUE = 'deterministic simulation, four-way differential of the readers on rebuilt worlds plus comparison with an independent spec decoder; TRASH_DATE sweeps the purge threshold'
LEVEL_TEXT = 'seeded exploration of .trashinfo contents x trash-dir kinds; agreement of list / restore / rm / empty on path and date, and with the spec'
LEVEL_NOTE = 'trusted: model/trashinfo.py decoder, world rebuild determinism'


def gen_content(rng, loc, top):
    feats = []
    rel = top is not None and rng.random() < 0.7
    if top is None and rng.random() < 0.3:
        rel = True            # relative path in the home trash (foreign / --trash-dir writer)
    raw = loc[len(top) + 1:] if (rel and top is not None) else (loc.lstrip('/') if rel else loc)
    feats.append('rel' if rel else 'abs')
    r = rng.random()
    if r < 0.5:
        pv = TG.pct(raw)
    elif r < 0.65:
        pv = raw.replace('%', '%25').replace('\n', '%0A')     # unescaped but harmless characters left raw
        feats.append('rawchars')
    elif r < 0.8:
        pv = ''.join('%%%02x' % b if rng.random() < 0.5 else chr(b) if 0x2d <= b < 0x7f and b != 0x25 else '%%%02X' % b
                     for b in raw.encode('utf-8', 'surrogateescape'))
        feats.append('mixedcase-escapes')
    else:
        pv = TG.pct(raw) + rng.choice(['%FF', '%C3%28', '%80abc', '%E9'])
        feats.append('non-utf8-escape')
    date = TG.rand_date(rng)
    if rng.random() < 0.15:
        # a date at, or up to three days before, a DST change of the simulated zones (the threshold sweep below uses DAYS = 3)
        date = rng.choice(TG.dst_edge_dates(rng)) - _dt.timedelta(days=rng.choice([0, 0, 1, 2, 3]))
        feats.append('near-dst-change')
    ds = TG.iso(date)
    lines = ['[Trash Info]', 'Path=' + pv, 'DeletionDate=' + ds]
    r = rng.random()
    if r < 0.12:
        lines.insert(rng.randint(1, 3), 'Path=' + TG.pct('/other/place'))
        feats.append('dup-path')
    elif r < 0.24:
        lines.insert(rng.randint(1, 3), 'DeletionDate=2001-01-01T01:01:01')
        feats.append('dup-date')
    elif r < 0.32:
        lines.insert(rng.randint(1, 3), rng.choice(['X-Extra=1', 'Comment=hi', '', '# comment', '[Other Section]', 'path=/lowercase', ' Path=/indented']))
        feats.append('extra-line')
    elif r < 0.38:
        lines = lines[1:]
        feats.append('no-header')
    elif r < 0.44:
        lines = [lines[0], lines[2], lines[1]]
        feats.append('date-first')
    elif r < 0.50:
        lines[2] = 'DeletionDate=' + rng.choice(['nonsense', '', '2020-02-30T00:00:00'])
        feats.append('bad-date')
    elif r < 0.55:
        del lines[2]
        feats.append('no-date')
    sep = '\n'
    if rng.random() < 0.08:
        sep = '\r\n'
        feats.append('crlf')
    content = sep.join(lines) + (sep if rng.random() < 0.9 else '')
    if rng.random() < 0.06:
        content = content.replace('Path=' + pv, 'Path=' + pv + ' ')
        feats.append('trailing-blank')
    return content, feats


def gen(rng):
    hm = rng.choice(['root', 'homevol', 'uvol'])
    L = G.make_layout(rng, nvol=rng.choice([0, 1, 2]), home_mode=hm, trash_states=[rng.choice(['absent', 'sticky'])] * 3,
                      alt_states=[rng.choice(['absent', 'dir'])] * 3, xdg=rng.choice(['unset', 'set']), nested=False)
    steps = L['steps']
    env, uid, home = dict(L['env']), L['uid'], L['home']
    locs = [t for t in TG.trash_locations(L) if t[2]]
    custom = None
    other_td = None
    if rng.random() < 0.2:
        custom = rng.choice([home + '/ct'] + [v + '/ct' for v in L['vols']])
        if L['vols'] and rng.random() < 0.5:
            v = rng.choice(L['vols'])
            steps.append(['d', v + '/realct', 0o700])
            steps.append(['l', home + '/ctlink', v + '/realct'])
            custom = home + '/ctlink'
        if L['vols'] and rng.random() < 0.2 and custom != home + '/ctlink':
            # --trash-dir spelled through '<symlink>/..': the kernel resolves it to a directory on the volume the link leads to (a
            # textual normalisation names a directory next to the link, which does not exist): the same spelling is given to all
            v = rng.choice(L['vols'])
            steps.append(['l', home + '/stick', L['work'][v]])
            custom = home + '/stick/../ctdots'
        tdir, top = custom, None
        others = [c for c in [home + '/ct'] + [v + '/ct' for v in L['vols']] if c != custom]
        if others and rng.random() < 0.5:
            # trash-list / trash-empty are given a second --trash-dir, on another volume, BEFORE the one under test
            other_td = rng.choice(others)
            G.add_trashed(steps, other_td, 'neighbour', 'docs/neighbour', '2021-01-01T01:01:01', 'file', tag='o')
    else:
        tdir, top, _u = rng.choice(locs)
        if top is not None and '/.Trash-' in tdir and L['trash'][top]['alt'] == 'absent' and rng.random() < 0.15:
            # $topdir/.Trash-$uid is a symlink to a directory of the same volume (.Trash-1001 -> .Trash-1000 on a disk shared by two
            # accounts of one person): trash-put fills it - every reader reads it
            steps.append(['d', top + '/.Trash-shared', 0o700])
            steps.append(['l', tdir, rng.choice(['.Trash-shared', top + '/.Trash-shared'])])
        elif top is not None and rng.random() < 0.5:
            # the volume's OTHER trash directory exists as well (the administrator created $topdir/.Trash after the first
            # put, or removed its sticky bit's reason to be...): every command reads both
            other_ = (top + '/.Trash-%d' % uid) if '/.Trash/' in tdir else (top + '/.Trash/%d' % uid)
            if other_.startswith(top + '/.Trash-') or L['trash'][top]['top'] == 'sticky':
                for sub_ in ('', '/files', '/info'):
                    steps.append(['d', other_ + sub_, 0o700])
    nm = rng.choice(['foreign', 'with space', 'per%cent', 'pl+us', 'ü', 'semi;colon'])
    base = (home + '/w') if top is None else (L['work'][top])
    loc = base + '/' + nm
    longpath = rng.random() < 0.06
    if longpath:
        # a deep location made of bytes that all need escaping: the Path value is 3 times as long as the path (5-12 KB)
        loc = base + '/' + '/'.join(rng.choice(['é', 'ж', '日']) * rng.choice([60, 80]) + str(k_) for k_ in range(rng.randint(9, 14))) + '/' + nm
    if not longpath and rng.random() < 0.06:
        # a Path written by another tool with a '<symlink>/..' step in it (the kernel resolves that to the parent of the link's
        # TARGET; a textual normalisation names another directory): every command takes the Path as it is written
        steps.append(['d', home + '/aux/elsewhere/deep', 0o755])
        steps.append(['l', base + '/lnk', home + '/aux/elsewhere/deep'])
        loc = base + '/lnk/../' + nm
    content, feats = gen_content(rng, loc, top)
    if '/lnk/../' in loc:
        feats.append('dotdot-after-symlink-in-Path')
    if rng.random() < 0.1:
        content = content.replace('[Trash Info]', '[Trash Info]\nX-Comment=ge\u00e4ndert \u65e5', 1) if content.startswith('[Trash Info]') else content + 'X-Comment=\u00e9\n'
        feats.append('non-ascii-comment-key')
    if longpath:
        feats.append('path-value-over-4k')
    G.add_trashed(steps, tdir, 'fe', None, None, rng.choice(['file', 'dir']), info_content=content, tag='f')
    twin = rng.random() < 0.1
    if twin:
        # a second entry that reads exactly the same (the same path trashed twice within one second, or copied by another tool):
        # every command sees two entries
        G.add_trashed(steps, tdir, 'fe_1', None, None, 'file', info_content=content, tag='f-twin')
    if rng.random() < 0.5:
        G.add_trashed(steps, tdir, 'neighbour', TG.pct(base + '/neighbour' if top is None else 'docs/neighbour'), '2022-02-02T02:02:02', 'file', tag='n')
    unlisted = []
    if custom and L['vols'] and rng.random() < 0.4:
        # the volume of the --trash-dir has a file-system type that the partition listing leaves out (ZFS dataset, overlay,
        # sshfs ...) although it is a mount point: every command finds the base for relative Paths the same way
        unlisted = [v for v in L['vols'] if custom.startswith(v + '/') or (custom.endswith('/ctlink') and True)]
    return {
        'world': {'mounts': L['mounts'], 'steps': steps, 'unlisted': unlisted},
        'procs': [{'argv': ['trash-list'], 'env': env, 'cwd': '/', 'uid': uid}],
        'dirsalt': rng.randrange(1 << 30),
        'note': {'tdir': tdir, 'custom': bool(custom), 'feats': feats, 'home_mode': hm, 'other_td': other_td, 'twin': twin},
        'clock': TG.dst_clock(rng) if rng.random() < 0.5 else {},
        # (6 %: the commands run under a locale whose encoding is plain ASCII while the file holds a non-ASCII byte - a comment
        # key written by another tool: whether the file can be read at all is the same for every command)
        'locale': ('ascii' if rng.random() < 0.06 else None),
    }


def check(sim, case, st):
    note = case.get('note', {})
    tdir = note.get('tdir')
    if not tdir:
        return []
    spec = case['procs'][0]
    env, uid = spec.get('env', {}), spec.get('uid', 1000)
    mounts = OR.mounts_of(case)
    custom = note.get('custom')
    td = ['--trash-dir', tdir] if custom else []
    td_multi = (['--trash-dir', note['other_td']] if note.get('other_td') else []) + td     # list and empty accept several
    if note.get('other_td'):
        st.probes['several-trash-dir-options'] += 1
    LOC = {'locale_encoding': case['locale']} if case.get('locale') else {}
    sim.setup(case)
    snap0 = sim.snap()
    ip = tdir + '/info/fe.trashinfo'
    rip = ML.resolve(snap0, ip)
    if rip is None or snap0[rip][0] != 'f':
        return []
    content = Wd.read_bytes(sim.root, rip)
    inf = TI.Info(content)
    if inf.path is None:
        return []
    top = ML.topdir_of(tdir, mounts, uid)
    hm = note.get('home_mode')
    kind = 'custom' if custom else ('home' if top is None else ('top' if '/.Trash/' in tdir else 'alt'))
    feats = tuple(sorted(note.get('feats', [])))
    st.distinct.add((feats, kind, hm))
    rel = not inf.path.startswith(b'/')
    st.probes['relative-path' if rel else 'absolute-path'] += 1
    if hm != 'root':
        st.probes['home-own-volume'] += 1
    if case['world'].get('unlisted'):
        st.probes['trash-dir-on-a-volume-missing-from-the-partition-listing'] += 1
    if custom:
        st.probes['custom-trash-dir'] += 1
        if tdir.endswith('/ctlink'):
            st.probes['trash-dir-through-cross-volume-symlink'] += 1
    for f, p in (('dup-path', 'duplicate-keys'), ('dup-date', 'duplicate-keys'), ('crlf', 'crlf'), ('mixedcase-escapes', 'escapes'),
                 ('non-utf8-escape', 'non-utf8-escape'), ('path-value-over-4k', 'path-value-over-4k')):
        if f in feats:
            st.probes[p] += 1
    # spec reading
    try:
        inf.path.decode('utf-8')
        utf8 = True
    except UnicodeDecodeError:
        utf8 = False
    spec_path = None
    if not rel:
        spec_path = ML.fss(inf.path)
    elif top is not None:
        spec_path = posixpath.join(top, ML.fss(inf.path))
    spec_date = inf.date
    res = []
    sigctx = '%s/%s/home=%s%s' % (kind, 'rel' if rel else 'abs', hm, '' if utf8 else '/non-utf8')

    def bad(clause, msg):
        res.append(('C20/%s/%s' % (clause, sigctx), '%s\n.trashinfo (%s): %r' % (msg, ip, content)))

    # 1. trash-list
    rl = sim.run(dict({'argv': ['trash-list'] + td_multi, 'env': env, 'cwd': '/', 'uid': uid}, **LOC))
    st.sims += 1
    if rl.exc is not None:
        bad('list-traceback:%s' % rl.exc_frame, 'trash-list raised %s' % rl.exc)
        return res
    # our line: the one that is not the neighbour's
    lines = [ln for ln in OR.phys_lines(rl.outs) if not ln.endswith('/neighbour')]
    if not lines and LOC and not all(b < 128 for b in content):
        # the file cannot be decoded in this locale: then it cannot for ANY of the commands - restore offers nothing, rm removes nothing
        st.probes['undecodable-in-this-locale'] += 1
        sim.setup(case)
        holder = {}

        def user0(out):
            holder['items'] = [(i, d, p) for i, d, p in (OR.parse_restore_items(out) or []) if not p.endswith('/neighbour')]
            return '\n'
        sim.run(dict({'argv': ['trash-restore', '/'] + td, 'env': env, 'cwd': '/', 'uid': uid}, **LOC), stdin_fn=user0)
        st.sims += 1
        if holder.get('items'):
            bad('list-vs-restore-readable', 'under the locale encoding %r trash-list cannot read the file (stderr %r) but trash-restore offers %r'
                % (case['locale'], rl.errs[:200], holder['items']))
        sim.setup(case)
        rm0 = sim.run(dict({'argv': ['trash-rm', '*'], 'env': env, 'cwd': '/', 'uid': uid}, **LOC))
        st.sims += 1
        if rip not in sim.snap():
            bad('list-vs-rm-readable', 'under the locale encoding %r trash-list cannot read the file but trash-rm * removes it' % (case['locale'],))
        return res
    if note.get('twin'):
        st.probes['twin-entries'] += 1
        if len(lines) != 2 or lines[0] != lines[1]:
            bad('list-twin-lines', 'two entries with identical .trashinfo: trash-list prints %r' % (lines,))
            return res
        lines = lines[:1]
    text = '\n'.join(lines)
    if len(text) < 20:
        bad('list-no-line', 'trash-list printed no line for the entry; stdout %r stderr %r' % (rl.outs, rl.errs[:300]))
        return res
    d_list, p_list = text[:19], text[20:]
    if not note.get('twin'):
        # the other output modes of trash-list print the same location ('<date> <location> -> <payload>' for --files)
        rf = sim.run(dict({'argv': ['trash-list', '--files'] + td_multi, 'env': env, 'cwd': '/', 'uid': uid}, **LOC))
        st.sims += 1
        st.probes['list-files-mode-compared'] += 1
        lf = [ln for ln in OR.phys_lines(rf.outs) if '/neighbour -> ' not in ln]
        if rf.exc is None and not any(ln.startswith(text + ' -> ') for ln in lf):
            bad('list-files-vs-list-path', 'trash-list prints %r, trash-list --files prints %r' % (text, lf[:3]))
    # 2. trash-restore (listing + effect), rebuilt world
    sim.setup(case)
    holder = {}

    def user(out):
        items = [(i, d, p) for i, d, p in (OR.parse_restore_items(out) or []) if not p.endswith('/neighbour')]
        holder['items'] = items
        return ('%d\n' % items[0][0]) if items else '\n'
    before = sim.snap()
    rr = sim.run(dict({'argv': ['trash-restore', '/'] + td, 'env': env, 'cwd': '/', 'uid': uid}, **LOC), stdin_fn=user)
    st.sims += 1
    after = sim.snap()
    if rr.exc is not None and not holder.get('items'):
        bad('restore-traceback:%s' % rr.exc_frame, 'trash-restore raised %s' % rr.exc)
    elif not holder.get('items'):
        bad('restore-no-line', 'trash-restore / does not offer the entry that trash-list shows as %r; stdout %r stderr %r' % (p_list, rr.outs[:300], rr.errs[:300]))
    else:
        st.probes['restore-checked'] += 1
        if note.get('twin') and len(holder['items']) != 2:
            bad('list-vs-restore-count', 'two entries with identical .trashinfo: trash-list prints two lines, trash-restore offers %d: %r'
                % (len(holder['items']), holder['items']))
        _i, d_res, p_res = holder['items'][0]
        if p_res != p_list:
            bad('list-vs-restore-path', 'trash-list prints %r, trash-restore prints %r' % (p_list, p_res))
        d_res_n = d_res if d_res != 'None' else '????-??-?? ??:??:??'
        if d_res_n != d_list:
            bad('list-vs-restore-date', 'trash-list prints date %r, trash-restore %r' % (d_list, d_res))
        # where did it go?
        added = [k for k in after if k not in before]
        payload_top = sorted(added, key=len)[0] if added else None
        if rr.exit == 0 and payload_top is not None:
            # created parents come first; the restored entry is the path equal to what was printed
            # (the printed path as the kernel resolves it: a '<symlink>/..' step leads to the parent of the link's target)
            d_, b_ = posixpath.split(p_res)
            rd_ = ML.resolve(after, d_) if ('/../' in p_res or '/./' in p_res) else None
            p_phys = ((rd_ if rd_ != '/' else '') + '/' + b_) if rd_ else p_res
            if p_res not in after and p_phys not in after:
                bad('restore-destination', 'trash-restore printed %r but restored to %r' % (p_res, sorted(added)[:4]))
    # 3. spec (CR is not defined by the spec: python's text mode reads CRLF as LF
    #    in every command alike, so only the agreement between commands counts)
    if b'\r' in content:
        spec_path = None
        exp_d = d_list
        spec_date = None if d_list.startswith('?') else _dt.datetime.strptime(d_list, '%Y-%m-%d %H:%M:%S')
    else:
        exp_d = MB.fmt_date(spec_date)
    if spec_path is not None and utf8 and p_list != spec_path:
        bad('list-vs-spec-path', 'trash-list prints %r, the spec decoder gives %r' % (p_list, spec_path))
    if spec_path is not None and not utf8 and p_list != spec_path:
        bad('list-vs-spec-path', 'trash-list prints %r, the spec decoder gives the byte string %r' % (p_list, spec_path))
    if d_list != exp_d:
        bad('list-vs-spec-date', 'trash-list prints date %r, the spec reading (first DeletionDate line) is %r' % (d_list, exp_d))
    if spec_date is None:
        st.probes['undated'] += 1
    # 4. trash-rm with the exact listed path (standard directories only)
    if not custom:
        sim.setup(case)
        b2 = sim.snap()
        rm = sim.run(dict({'argv': ['trash-rm', glob_literal(p_list)], 'env': env, 'cwd': '/', 'uid': uid}, **LOC))
        st.sims += 1
        a2 = sim.snap()
        st.probes['rm-checked'] += 1
        if rm.exc is not None:
            bad('rm-traceback:%s' % rm.exc_frame, 'trash-rm raised %s' % rm.exc)
        elif rip in a2:
            bad('list-vs-rm-path', 'trash-rm with the path trash-list prints (%r) as pattern does not remove the entry (stderr %r)' % (p_list, rm.errs[:200]))
    # 5. trash-empty D at the threshold (TRASH_DATE)
    if spec_date is not None and d_list == exp_d:
        D = 3
        try:
            at = spec_date + _dt.timedelta(days=D)
            after1 = at + _dt.timedelta(seconds=1)
        except OverflowError:
            at = None
        if at is not None and at.year < 9999:
            outcomes = []
            for now in (at, after1):
                sim.setup(case)
                e = dict(env, TRASH_DATE=TG.iso(now))
                re_ = sim.run(dict({'argv': ['trash-empty'] + td_multi + [str(D)], 'env': e, 'cwd': '/', 'uid': uid}, **LOC))
                st.sims += 1
                s3 = sim.snap()
                outcomes.append((rip not in s3, re_.exc))
            st.probes['empty-threshold-checked'] += 1
            if outcomes[0][1] is not None or outcomes[1][1] is not None:
                bad('empty-traceback', 'trash-empty raised %s' % (outcomes[0][1] or outcomes[1][1]))
            elif outcomes != [(False, None), (True, None)]:
                bad('list-vs-empty-date', 'trash-list prints date %s; trash-empty %d with now = date+%dd %s it, with now one second later %s it'
                    % (d_list, D, D, 'purges' if outcomes[0][0] else 'keeps', 'purges' if outcomes[1][0] else 'keeps'))
    if not res:
        st.probes['four-way-agree'] += 1
    seen, out = set(), []
    for s, m in res:
        if s not in seen:
            seen.add(s)
            out.append((s, m))
    return out
