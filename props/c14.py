"""C14 - no purge without consent: --dry-run and a negative answer change
nothing; --dry-run prints exactly what the real run removes (engine D: the
same world is built twice and the command run with and without --dry-run)."""
from __future__ import annotations

import copy

from gen import base as G
from gen import trashgen as TG
from oracles import readers as OR
from sim import world as Wd

ID = 'C14'
LEVEL = 'exploration'
ENGINE = 'differential'
BUDGET = {'quick': 6000, 'thorough': 100000}
WALL = {'quick': 45, 'thorough': 1500}
RULE = ('one trash-empty per case with --dry-run, or in interactive mode (-i or a tty on stdin) with a generated reply; '
        'trash content incl. malformed entries and orphans, DAYS, --trash-dir, -v; dry runs are compared with the real run on an '
        'identically rebuilt world; non-trivial = the real command would have removed something; distinct = (mode, reply class, '
        'DAYS given, #would-be-removed)')
ASSUMPTIONS = ["a 'would remove' line for a path that does not exist (payload of an info without payload) is not counted against the property"]
PROBES = ['unremovable-payload-without-info', 'announced-and-reported-as-not-removable', 'trash-dir-with-hundreds-of-entries', 'dry-run', 'negative-reply', 'positive-reply', 'eof-reply', 'tty-interactive', 'flag-interactive', 'with-days',
          'with-trash-dir', 'dry-run-printed-nonexistent', 'would-remove-lines']
TECHNIQUE = 'deterministic simulation, differential: dry run vs real run on an identically rebuilt world; frame oracle on full snapshots'
LEVEL_TEXT = 'seeded exploration of trash contents x replies x options; full-snapshot equality for refusals, set agreement for dry runs'
LEVEL_NOTE = 'trusted: snapshot function, world rebuild determinism (checked by the determinism self-test)'

NEG = ['n', 'N', 'no', '', ' y', 'ny', 'maybe', 'Yes'[1:], '0', ' ', '\ty', 'q']
POS = ['y', 'Y', 'yes', 'Yes', 'yY', 'y ', 'yep']


def gen(rng):
    L = G.make_layout(rng, trash_states=[rng.choice(['absent', 'sticky', 'nonsticky']) for _ in range(4)],
                      alt_states=[rng.choice(['absent', 'dir']) for _ in range(4)])
    steps = L['steps']
    made = TG.populate(rng, L, steps, n=rng.choice([0, 1, 2, 4, 7]), allow_invalid=rng.random() < 0.3, bulk=0.003)
    if made and rng.random() < 0.05:
        # info/<name>_alias.trashinfo is a symlink to the .trashinfo of ANOTHER entry of the same directory (with a payload of its
        # own): whether it can still be read when its turn comes depends on whether the other entry was purged before it
        tdir_, nm_, _loc, _d = rng.choice(made)
        if len(nm_.encode('utf-8', 'surrogateescape')) < 200 and '\n' not in nm_:
            steps.append(['l', tdir_ + '/info/' + nm_ + '_alias.trashinfo', nm_ + '.trashinfo'])
            steps.append(['f', tdir_ + '/files/' + nm_ + '_alias', 'payload of the alias', 0o644])
    locs = [t for t in TG.trash_locations(L) if t[2]]
    for i in range(rng.choice([0, 0, 1, 2])):
        TG.add_malformed(rng, steps, rng.choice(locs)[0], rng.choice(['nodate', 'baddate', 'nopayload', 'orphan', 'nonsuffix', 'empty', 'nopath']), str(i))
    if made and rng.random() < 0.08:
        # two trashed entries that are hard links of one file (ln a b; trash-put a b - rename keeps the link count): two
        # entries, two payloads, two announcements
        tdir_, nm_, loc_, d_ = rng.choice(made)
        src_ = tdir_ + '/files/' + nm_
        if any(s_[0] == 'f' and s_[1] == src_ for s_ in steps) and len(nm_.encode('utf-8', 'surrogateescape')) < 200:
            steps.append(['h', tdir_ + '/files/' + nm_ + '.hl', src_])
            pv_ = [s_ for s_ in steps if s_[1] == tdir_ + '/info/' + nm_ + '.trashinfo'][0][2]
            steps.append(['f', tdir_ + '/info/' + nm_ + '.hl.trashinfo', pv_.replace('\nDeletionDate', '.hl\nDeletionDate', 1), 0o600])
    if rng.random() < 0.004:
        # a trashed tree nested deeper than the interpreter's recursion limit (an unpacked archive bomb, a runaway mkdir loop)
        tdir_ = locs[0][0]
        G.add_trashed(steps, tdir_, 'entabyss', TG.pct(L['home'] + '/w/entabyss'), '2011-01-01T00:00:00', 'dir', tag='abyss')
        steps.append(['d', tdir_ + '/files/entabyss' + '/d' * 1100, 0o755])
        # at its bottom a link to a directory that is no part of it (what the link leads to is neither announced nor removed)
        steps.append(['d', L['home'] + '/keepdir', 0o755])
        steps.append(['f', L['home'] + '/keepdir/keep.txt', 'keep', 0o644])
        steps.append(['l', tdir_ + '/files/entabyss' + '/d' * 1100 + '/lnk', L['home'] + '/keepdir'])
    faults = []
    if rng.random() < 0.04:
        # a payload WITHOUT info that cannot be removed (a read-only sub-directory with content, as in a Go module cache: EACCES
        # for an ordinary user, emulated by a condition) and more payloads without info around it: the real run says which path it
        # could not remove - every other announced path is removed
        tdir_ = locs[0][0]
        for sub_ in ('', '/files', '/info'):
            steps.append(['d', tdir_ + sub_, 0o700])
        steps.append(['d', tdir_ + '/files/mod-cache/ro-sub', 0o555])
        steps.append(['f', tdir_ + '/files/mod-cache/ro-sub/pinned', 'cannot be unlinked', 0o444])
        faults.append({'kind': 'cond', 'what': 'dir_not_writable', 'dir': '%RESOLVE%' + tdir_ + '/files/mod-cache/ro-sub'})
        for j in range(rng.randint(1, 3)):
            steps.append(['f', tdir_ + '/files/' + rng.choice(['aa', 'zz', 'left-over', 'm', 'n']) + '-%d' % j, 'left over', 0o644])
    extra = L['home'] + '/othertrash'
    if rng.random() < 0.3:
        G.add_trashed(steps, extra, 'x1', TG.pct(L['home'] + '/w/x1'), '2019-05-05T05:05:05', 'file', tag='x')
    argv = ['trash-empty']
    mode = rng.choice(['dry', 'dry', 'flag', 'tty', 'dry+flag'])
    tty = False
    stdin = ''
    if 'dry' in mode:
        argv.append('--dry-run')
    if mode in ('flag', 'dry+flag'):
        argv.append(rng.choice(['-i', '--interactive']))
    if mode == 'tty':
        tty = True
    if mode != 'dry':
        rep = rng.choice(NEG + NEG + POS)
        stdin = rep + '\n' if rng.random() < 0.85 else (rep if rng.random() < 0.5 else '')
    if rng.random() < 0.3:
        argv.append(rng.choice(['-v', '-vv']))
    if rng.random() < 0.3:
        argv += ['--trash-dir', rng.choice([extra, locs[0][0]])]
    voltd = [t for t in locs if t[1] is not None]
    if voltd and '--trash-dir' not in argv and rng.random() < 0.12:
        # --trash-dir spelled through '<symlink>/..' (or relative to the current directory): the kernel resolves it to the
        # volume's trash directory; the paths announced are the paths removed, however they are spelled
        import posixpath
        tdir, top, _u = rng.choice(voltd)
        steps.append(['l', L['home'] + '/stick', L['work'][top]])
        spelled = L['home'] + '/stick/../' + posixpath.relpath(tdir, posixpath.dirname(L['work'][top]))
        decoy = posixpath.normpath(spelled)
        if rng.random() < 0.5:
            G.add_trashed(steps, decoy, 'decoy', TG.pct(L['home'] + '/w/decoy'), '2001-01-01T00:00:00', 'file', tag='decoy')
        argv += ['--trash-dir', spelled]
    if rng.random() < 0.5:
        argv.append(str(rng.choice([0, 1, 30, 365, 100000])))
    return {
        'world': {'mounts': L['mounts'], 'steps': steps},
        'procs': [{'argv': argv, 'env': L['env'], 'cwd': '/', 'uid': L['uid'], 'stdin': stdin, 'tty': tty}],
        'dirsalt': rng.randrange(1 << 30),
        'faults': faults,
    }


def check(sim, case, st):
    if any(isinstance(f.get('dir'), str) and f['dir'].startswith('%RESOLVE%') for f in case.get('faults', [])):
        from model import layout as ML_
        sim.setup(dict(case, faults=[]))
        pre_ = sim.snap()
        for f in case['faults']:
            if f['dir'].startswith('%RESOLVE%'):
                f['dir'] = ML_.resolve(pre_, f['dir'][len('%RESOLVE%'):]) or f['dir'][len('%RESOLVE%'):]
        st.probes['unremovable-payload-without-info'] += 1
    spec = case['procs'][0]
    argv = spec['argv']
    dry = '--dry-run' in argv
    inter = ('-i' in argv or '--interactive' in argv or spec.get('tty')) and '-f' not in argv
    sim.setup(case)
    snap0 = sim.snap()
    if len(case['world']['steps']) > 400:
        st.probes['trash-dir-with-hundreds-of-entries'] += 1
    r = sim.run(spec)
    st.sims += 1
    st.ops += r.nops
    snap1 = sim.snap()
    res = []
    stdin = spec.get('stdin', '')
    line = stdin.split('\n', 1)[0] if stdin else None
    positive = inter and line is not None and line[:1] in ('y', 'Y')
    if inter:
        st.probes['tty-interactive' if spec.get('tty') and '-i' not in argv else 'flag-interactive'] += 1
        if line is None:
            st.probes['eof-reply'] += 1
        st.probes['positive-reply' if positive else 'negative-reply'] += 1
    if any(a.isdigit() for a in argv[1:]):
        st.probes['with-days'] += 1
    if '--trash-dir' in argv:
        st.probes['with-trash-dir'] += 1
    d = Wd.diff(snap0, snap1)
    changed = d != ([], [], [])
    if dry and changed:
        res.append(('C14/dry-run-changed-disk', 'trash-empty --dry-run changed the disk: %r (argv %r)' % (d, argv)))
    if inter and not positive and changed:
        res.append(('C14/negative-reply-changed-disk/%s' % ('eof' if line is None else 'reply'),
                    'reply %r does not begin with y/Y but the disk changed: %r (argv %r)' % (line, d, argv)))
    nwould = 0
    if dry and (not inter or positive):
        st.probes['dry-run'] += 1
        lines = [ln[len('Proceed? (y/N) '):] if ln.startswith('Proceed? (y/N) ') else ln for ln in OR.phys_lines(r.outs)]
        printed = [ln[len('would remove '):] for ln in lines if ln.startswith('would remove ')]
        st.probes['would-remove-lines'] += len(printed)
        # the same command without --dry-run on an identically rebuilt world
        c2 = copy.deepcopy(case)
        c2['procs'][0]['argv'] = [a for a in argv if a != '--dry-run']
        sim.setup(c2)
        r2 = sim.run(c2['procs'][0])
        st.sims += 1
        st.ops += r2.nops
        snap2 = sim.snap()
        removed, _added, _ch = Wd.diff(snap0, snap2)
        top_removed = set()
        for p in removed:
            for marker in ('/files/', '/info/'):
                if marker in p:
                    h, t = p.split(marker, 1)
                    if '/' not in t:
                        top_removed.add(p)
        nwould = len(top_removed)
        from model import layout as ML
        import posixpath

        def canon(p):
            d, b = posixpath.split(p)
            rd = ML.resolve(snap0, d)
            return (rd + '/' + b) if rd else p
        pset = set(canon(p) for p in printed)
        # a name that is not valid UTF-8 is printed with backslash escapes
        esc = lambda q: q.encode('utf-8', 'backslashreplace').decode('utf-8')
        top_removed = set(q if q in pset else (esc(q) if canon(esc(q)) in pset or esc(q) in pset else q) for q in top_removed)
        pset |= set(printed)
        # names with newlines: compare on the joined text instead
        if any('\n' in p for p in top_removed):
            pset = None
        if pset is not None:
            for p in top_removed - pset:
                res.append(('C14/dry-run-silent-about-removal', 'the real run removes %r but --dry-run did not print it (argv %r)\nstdout: %s'
                            % (p, argv, r.outs[:600])))
                break
            reported_ = set()
            for ln_ in OR.phys_lines(r2.errs):
                if 'cannot remove ' in ln_:
                    q_ = ln_.split('cannot remove ', 1)[1]
                    reported_.add(q_)
                    reported_.add(canon(q_))
            for p in pset - top_removed:
                if p in snap0 and (p in reported_ or canon(p) in reported_):
                    # the real run tried, could not, and said so about exactly this path
                    st.probes['announced-and-reported-as-not-removable'] += 1
                    continue
                if p in snap0:
                    res.append(('C14/dry-run-printed-not-removed' + ('/info-is-a-link-to-another-info' if '_alias' in p else '/payload-deeper-than-the-recursion-limit' if '/entabyss' in p else ''), '--dry-run printed %r, which exists, but the real run does not remove it (argv %r, real exit %s, stderr %s)'
                                % (p, argv, r2.exit, r2.errs[-300:])))
                    break
                else:
                    st.probes['dry-run-printed-nonexistent'] += 1
    if nwould or (changed and positive):
        st.distinct.add(('dry' if dry else 'inter', 'pos' if positive else ('eof' if line is None else 'neg') if inter else '-',
                         any(a.isdigit() for a in argv[1:]), nwould))
    elif inter and not positive:
        # a refusal is non-trivial when a consenting run would have removed something
        c3 = copy.deepcopy(case)
        c3['procs'][0]['stdin'] = 'y\n'
        c3['procs'][0]['argv'] = [a for a in argv if a != '--dry-run']
        sim.setup(c3)
        sim.run(c3['procs'][0])
        st.sims += 1
        if Wd.diff(snap0, sim.snap()) != ([], [], []):
            st.distinct.add(('inter', 'eof' if line is None else 'neg:' + line[:3], any(a.isdigit() for a in argv[1:]), -1))
    return res
