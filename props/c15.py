"""C15 - killing restore, empty or rm at any instant never strands a payload
without info.  Engine K."""
from __future__ import annotations

import posixpath

from engines import crash as EC
from gen import base as G
from gen import trashgen as TG
from model import bag as MB
from model import layout as ML
from oracles import readers as OR
from sim import world as Wd

ID = 'C15'
LEVEL = 'fault_enumeration'
EVAL_PROBE = 'crash-states'
ENGINE = 'crash'
BUDGET = {'quick': 1200, 'thorough': 20000}
WALL = {'quick': 90, 'thorough': 1800}
RULE = ('scenarios: trash-restore (single / multi index; file, deep directory, symlink; same-volume and cross-volume destination so that copy '
        'and delete steps are crash points), trash-empty (with/without DAYS, several trash dirs, orphans), trash-rm (several matches); ALL '
        'crash points of each scenario are visited; crash-state invariant: every payload under files/ that had an info still has it, an '
        'entry being restored is complete in the trash or at its destination; recovery: re-running the killed empty/rm completes the purge, '
        'after a killed restore trash-empty leaves files/ and info/ empty; evaluations = crash states; distinct = (command, entry kind, '
        'same/cross volume, op the kill preceded) with a crash state different from initial and final')
ASSUMPTIONS = ['kill = SIGKILL between two system calls; no power loss', 'restore destinations are free (clobbering is C06)']
PROBES = ['crash-states', 'restore-scenarios', 'empty-scenarios', 'rm-scenarios', 'cross-volume-restore', 'killed-mid-copy', 'killed-mid-rmtree',
          'killed-between-payload-and-info', 'recovery-rerun-completed', 'recovery-empty-after-restore', 'history-order-checked',
          'history-names-a-crash-point', 'thousands-of-entries', 'retry-with-overwrite-after-kill', 'overwrite-onto-occupied-destination']
TECHNIQUE = 'deterministic simulation with crash injection enumerated over every mutating op of seeded restore/empty/rm scenarios; crash-state invariant + recovery'
LEVEL_TEXT = 'crash points enumerated completely per sampled scenario; scenarios sampled by seed'
LEVEL_NOTE = 'trusted: sticky-kill model, snapshot function, model/bag.py'


def gen(rng):
    cmd = rng.choice(['trash-restore', 'trash-restore', 'trash-empty', 'trash-rm'])
    L = G.make_layout(rng, nvol=rng.choice([0, 1, 2]), trash_states=[rng.choice(['absent', 'sticky'])] * 3,
                      alt_states=[rng.choice(['absent', 'dir'])] * 3, xdg=rng.choice(['unset', 'set']), nested=False)
    steps = L['steps']
    home, uid, env = L['home'], L['uid'], dict(L['env'])
    locs = [t for t in TG.trash_locations(L) if t[2]]
    n = rng.choice([1, 2, 3, 4])
    cross = False
    twins = [0]
    # trash-restore --overwrite onto occupied destinations: another file, or ANOTHER NAME (hard link) of the very payload - the
    # file had two names, one was trashed and later recreated from the other with ln / cp -l / a snapshot tool
    ow = cmd == 'trash-restore' and rng.random() < 0.15
    occupied = 0
    for i in range(n):
        tdir, top, _u = rng.choice(locs)
        nm = 'ent%d' % i
        if rng.random() < 0.1:
            # names made of dots, with several dots, beginning with a dot: whatever takes 'the extension' off such a name errs
            nm = rng.choice(['...', '....', '.ent%d' % i, 'ent%d.tar.gz' % i, 'ent%d.' % i, '..ent%d' % i])
            if any(s_[1].endswith('/files/' + nm) for s_ in steps):
                nm = 'ent%d' % i
        kind = rng.choice(['file', 'dir', 'link', 'deep'])
        if kind == 'link' and rng.random() < 0.5:
            # a link whose (absolute) target exists - a file or a directory that was never trashed: the entry is the link
            kind = rng.choice(['link_absfile', 'link_absdir'])
        # original location: same volume as the trash dir, or (for restore) another one
        if cmd == 'trash-restore' and rng.random() < 0.35 and L['vols']:
            other = rng.choice([v for v in ['/'] + L['vols'] if v != (top or ML.volume_of(['/'] + L['mounts'], tdir))] or ['/'])
            loc = (home + '/w/' + nm) if other == '/' else (L['work'][other] + '/' + nm)
            pv = TG.pct(loc)
            cross = True
            _crossed = True
        else:
            _crossed = False
            loc = (home + '/w/' + nm) if top is None else (L['work'][top] + '/' + nm)
            pv = TG.pct(loc if top is None else loc[len(top) + 1:])
        date = '20%02d-01-01T00:00:00' % rng.randint(10, 24)
        if kind == 'deep':
            G.add_trashed(steps, tdir, nm, pv, date, 'dir', tag=str(i))
            base = tdir + '/files/' + nm
            steps.append(['d', base + '/a/b', 0o755])
            steps.append(['f', base + '/a/b/c', 'deep', 0o640, 1_210_000_000])
            steps.append(['l', base + '/a/lnk', '../member'])
            steps.append(['d', base + '/empty', 0o700])
        else:
            G.add_trashed(steps, tdir, nm, pv, date, kind, tag=str(i))
        if ow and kind == 'file' and rng.random() < 0.7:
            if rng.random() < 0.6 and not _crossed:
                steps.append(['h', loc, tdir + '/files/' + nm])
            else:
                steps.append(['f', loc, 'somebody else took the place', 0o644, 1_220_000_000 + i])
            occupied += 1
        if cmd == 'trash-restore' and not ow and rng.random() < 0.2:
            # an older generation of the same path: selected together, the second one finds its destination taken and stays
            G.add_trashed(steps, tdir, nm + '_1', pv, '20%02d-06-06T06:06:06' % rng.randint(10, 24), rng.choice(['file', 'dir', 'link']), tag='%d-older' % i)
            twins[0] += 1
    abyss = False
    if cmd in ('trash-empty', 'trash-rm') and rng.random() < 0.01:
        # an entry nested deeper than the interpreter's recursion limit: shutil.rmtree gives up on it with RecursionError;
        # whatever the command does then, the payload that is still there keeps its .trashinfo
        tdir = locs[0][0]
        G.add_trashed(steps, tdir, 'entabyss', TG.pct(home + '/w/entabyss'), '2011-01-01T00:00:00', 'dir', tag='abyss')
        steps.append(['d', tdir + '/files/entabyss' + '/d' * 1100, 0o755])
        abyss = True
    faults = []
    if cmd == 'trash-empty' and rng.random() < 0.05:
        # an entry that cannot be removed (a read-only sub-directory, as in a Go module cache: unlinking inside it is EACCES for
        # an ordinary user - emulated by a condition) next to an entry called <its name>.trashinfo: what is kept for the first
        # must not cost the second its record
        tdir = locs[0][0]
        G.add_trashed(steps, tdir, 'entro', TG.pct(home + '/w/entro'), '2011-01-01T00:00:00', 'dir', tag='ro')
        steps.append(['d', tdir + '/files/entro/ro-sub', 0o555])
        steps.append(['f', tdir + '/files/entro/ro-sub/pinned', 'cannot be unlinked', 0o444])
        faults.append({'kind': 'cond', 'what': 'dir_not_writable', 'dir': tdir + '/files/entro/ro-sub'})
        G.add_trashed(steps, tdir, 'entro.trashinfo', TG.pct(home + '/w/entro.trashinfo'), '2011-01-02T00:00:00', rng.choice(['file', 'dir']), tag='ro-ti')
    if cmd in ('trash-empty', 'trash-rm') and not faults and rng.random() < 0.04:
        # files/ of one trash directory has lost its search (x) permission (chmod 600 files, a botched chmod -R): an ordinary user
        # can list it but cannot look anything up below it (EACCES, emulated).  What cannot be looked at is not known to be gone
        faults.append({'kind': 'cond', 'what': 'dir_not_searchable', 'dir': locs[0][0] + '/files'})
    many = 0
    if cmd in ('trash-empty', 'trash-rm') and rng.random() < 0.01:
        # hundreds or thousands of entries in one trash directory, just past a round number: an implementation that works in
        # batches (of 100, 128, 256, 500, 512, 1000, 1024, 2048 ...) reaches its batch boundary
        many = rng.choice([100, 128, 256, 500, 512, 1000, 1000, 1024, 2048]) + rng.choice([1, 2, 3, 7])
        tdir = locs[0][0]
        for sub in ('', '/files', '/info'):
            steps.append(['d', tdir + sub, 0o700])
        for j in range(many):
            nm_ = 'ent-many-%05d' % j
            steps.append(['f', tdir + '/files/' + nm_, 'x', 0o644, 1_200_000_000 + j])
            steps.append(['f', tdir + '/info/' + nm_ + '.trashinfo', G.fmt_info(TG.pct(home + '/w/' + nm_), '2012-01-01T00:00:00'), 0o600, 1_250_000_000 + j])
    if cmd == 'trash-empty' and rng.random() < 0.5:
        steps.append(['f', locs[0][0] + '/files/orphan1', 'o', 0o644])
    if cmd == 'trash-restore':
        sel = list(range(n + twins[0]))
        rng.shuffle(sel)
        sel = sel[:rng.randint(1, n + twins[0])]
        argv = ['trash-restore', '--sort=path'] + (['--overwrite'] if ow else []) + ['/']
        spec = {'argv': argv, 'env': env, 'cwd': '/', 'uid': uid, 'stdin': ','.join(map(str, sel)) + '\n'}
    elif cmd == 'trash-empty':
        argv = ['trash-empty'] + rng.choice([[], [], ['1'], ['4000'], ['-v'], ['-vv']])
        spec = {'argv': argv, 'env': env, 'cwd': '/', 'uid': uid}
    else:
        argv = ['trash-rm', rng.choice(['*', 'ent*', 'ent[0-1]', 'ent0'])]
        spec = {'argv': argv, 'env': env, 'cwd': '/', 'uid': uid}
    clock = {'start': '2025-03-03T03:03:03.000000'}
    if cmd == 'trash-empty' and argv[-1] == '1' and rng.random() < 0.5:
        # time passes while the command runs (0.3 s per system call) and some entries reach the age limit DURING the run: whenever
        # an entry is judged, its payload and its info go together or stay together
        clock['op_us'] = 300000
        tdir = locs[0][0]
        for j, secs in enumerate(rng.sample([1, 2, 3, 4, 6, 8, 12], 3)):
            G.add_trashed(steps, tdir, 'entedge%d' % j, TG.pct(home + '/w/entedge%d' % j), '2025-03-02T03:03:%02d' % (3 + secs), 'file', tag='edge%d' % j)
    case_ = {
        'world': {'mounts': L['mounts'], 'steps': steps},
        'procs': [spec],
        'dirsalt': rng.randrange(1 << 30),
        'clock': clock,
        'note': {'cmd': cmd, 'cross': cross, 'many': many, 'occupied': occupied},
        'faults': faults,
    }
    if many:
        case_['crash_sample'] = 4
    if abyss:
        case_['crash_sample'] = 4        # (its removal alone takes thousands of operations)
    return case_


PINS = {}
CUR = {'k': None}


def pin(case, sig):
    """a replay visits only the crash point that produced ``sig``"""
    import copy
    c = copy.deepcopy(case)
    if sig in PINS:
        c['only_crash'] = PINS[sig]
    return c


def check(sim, case, st):
    spec = case['procs'][-1]
    cmd = posixpath.basename(spec['argv'][0])
    if cmd not in ('trash-restore', 'trash-empty', 'trash-rm'):
        return []
    mounts = OR.mounts_of(case)
    env, uid = spec.get('env', {}), spec.get('uid', 1000)
    note = case.get('note', {})
    res = []
    bag0 = None
    final = None
    full_exc = None
    full_gave_up = False
    final_bag_keys = None
    PINS.clear()
    for k, n, before, r, snap in EC.sweep(sim, case, st):
        if k == 'full':
            # the bag of the initial state: (re)build and scan
            sim.setup(case)
            bag0 = OR.scan(sim, before, env, uid, mounts)
            final = snap
            full_exc = (r.exc_frame, (r.exc or '').split(':')[0]) if r.exc is not None else None
            full_gave_up = 'cannot remove' in (r.errs or '')
            final_bag_keys = OR.bag_keys(OR.scan(sim, final, env, uid, mounts)) if False else None
            st.probes[cmd.split('-')[1] + '-scenarios'] += 1
            if cmd in ('trash-empty', 'trash-rm'):
                # the recorded history of the undisturbed run names the crash points at which an info file is gone before its
                # payload: they are visited in addition to the enumerated / sampled ones
                case.pop('crash_extra', None)
                hot = EC.info_removed_before_payload(r.trace)
                st.probes['history-order-checked'] += 1
                if hot:
                    case['crash_extra'] = [h[0] for h in hot[:3]]
                    st.probes['history-names-a-crash-point'] += 1
            if note.get('occupied'):
                st.probes['overwrite-onto-occupied-destination'] += 1
            # the end of the undisturbed run is a position like any other: no payload without its info
            for e in bag0:
                rt = ML.resolve(snap, e.tdir)
                if rt is not None and e.has_payload and (rt + '/files/' + e.name) in snap and (rt + '/info/' + e.name + '.trashinfo') not in snap:
                    pt = OR.payload_tree(before, e).get('')
                    sig = 'C15/payload-stranded-without-info/%s/%s/%s/end' % (cmd, {'f': 'file', 'd': 'dir', 'l': 'symlink'}.get(pt[0], 'x') if pt else 'nopayload',
                                                                           'cross' if note.get('cross') else 'same')
                    res.append((sig, 'at the end of the undisturbed run payload %s/files/%s is still there but its .trashinfo is gone (argv %r stdin %r)'
                                % (e.tdir, e.name, spec['argv'], spec.get('stdin'))))
                if rt is not None and cmd == 'trash-restore' and e.has_payload and e.location and not note.get('occupied'):
                    want = OR.payload_tree(before, e)
                    if not Wd.same_tree(want, Wd.subtree(snap, rt + '/files/' + e.name)) and not Wd.same_tree(want, Wd.subtree(snap, e.location)):
                        pt = want.get('')
                        res.append(('C15/restored-entry-torn/%s/%s/%s/end' % (cmd, {'f': 'file', 'd': 'dir', 'l': 'symlink'}.get(pt[0], 'x') if pt else 'nopayload',
                                                                          'cross' if note.get('cross') else 'same'),
                                    'at the end of the undisturbed run entry %r is complete neither in the trash nor at %r (argv %r stdin %r, exit %s)'
                                    % (e, e.location, spec['argv'], spec.get('stdin'), r.exit)))
            if note.get('many'):
                st.probes['thousands-of-entries'] += 1
            if note.get('cross'):
                st.probes['cross-volume-restore'] += 1
            continue
        st.probes['crash-states'] += 1
        killop = None
        for ev in r.trace:
            if ev[2] == 'KILL':
                killop = ev[3]
            elif ev[2] == 'INTR':
                killop = 'sigint:' + ev[3]
                st.probes['sigint-deliveries'] += 1
        where = 'k=%s/%s before %s' % (k, n, killop)
        CUR['k'] = ['intr', k[1]] if isinstance(k, tuple) else ['kill', k]

        def bad(clause, msg, e=None):
            ek = '-'
            if e is not None:
                pt = OR.payload_tree(before, e).get('')
                ek = {'f': 'file', 'd': 'dir', 'l': 'symlink'}.get(pt[0], 'x') if pt else 'nopayload'
            sig = 'C15/%s/%s/%s/%s/%s' % (clause, cmd, ek, 'cross' if note.get('cross') else 'same', killop or 'end')
            PINS.setdefault(sig, list(CUR['k']))
            res.append((sig, '%s (kill %s; argv %r stdin %r)' % (msg, where, spec['argv'], spec.get('stdin'))))
        # 1. every payload still under files/ that had an info before still has it
        for e in bag0:
            rt = ML.resolve(snap, e.tdir)
            if rt is None:
                continue
            has_payload = (rt + '/files/' + e.name) in snap
            has_info = (rt + '/info/' + e.name + '.trashinfo') in snap
            if has_payload and not has_info and e.has_payload:
                bad('payload-stranded-without-info', 'payload %s/files/%s is still there but its .trashinfo is gone' % (e.tdir, e.name), e)
            # 2. restore: complete in the trash or at the destination
            if cmd == 'trash-restore' and e.has_payload and e.location:
                want = OR.payload_tree(before, e)
                in_trash = Wd.same_tree(want, Wd.subtree(snap, rt + '/files/' + e.name))
                at_dest = Wd.same_tree(want, Wd.subtree(snap, e.location))
                if not in_trash and not at_dest:
                    bad('restored-entry-torn', 'entry %r is complete neither in the trash nor at %r' % (e, e.location), e)
            if snap != before and snap != final:
                pt = OR.payload_tree(before, e).get('')
                st.distinct.add((cmd, pt[0] if pt else '-', bool(note.get('cross')), killop))
        if killop in ('sendfile', 'fwrite', 'symlink', 'mkdir', 'utime', 'chmod'):
            st.probes['killed-mid-copy'] += 1
        if killop in ('rmdir',) or (killop == 'unlink' and any(ev[2] == 'scandir' for ev in r.trace)):
            st.probes['killed-mid-rmtree'] += 1
        if killop in ('remove', 'unlink') and r.trace and any(ev[2] in ('rename', 'remove', 'unlink', 'rmdir') and ev[6] is None for ev in r.trace[:-1]):
            st.probes['killed-between-payload-and-info'] += 1
        # 3. recovery
        if cmd in ('trash-empty', 'trash-rm'):
            rr = sim.run(spec)
            st.sims += 1
            after = sim.snap()
            if rr.exc is not None and (rr.exc_frame, rr.exc.split(':')[0]) == full_exc:
                # the UNDISTURBED command dies the same way on this content (an entry nested deeper than the recursion limit):
                # not a matter of recovery after a kill; what counts below is that the re-run gets as far as the undisturbed run
                st.probes['undisturbed-run-dies-the-same-way'] += 1
            elif rr.exc is not None:
                bad('rerun-traceback:%s' % rr.exc_frame, 're-running the killed command raised %s' % rr.exc)
            # the purge is complete: same trash content as the uninterrupted run
            ta = dict((p, v) for p, v in after.items() if '/files/' in p or '/info/' in p)
            tf = dict((p, v) for p, v in final.items() if '/files/' in p or '/info/' in p)
            if full_exc is not None or full_gave_up:
                # the undisturbed run died on the way, or reported that it could not remove something (a tree nested deeper than
                # the recursion limit) (how far it got depends on the order in which directories are listed):
                # there is no 'complete purge' to compare the re-run with; the payload/info invariant above still applies
                st.probes['no-complete-purge-to-compare-with'] += 1
            elif case.get('clock', {}).get('op_us'):
                # (a clock that moves during the run: which entries are past the limit depends on WHEN each run looks at them, the
                # re-run and the uninterrupted run need not agree - the payload / info invariant above is what these cases are for)
                st.probes['live-clock-no-rerun-comparison'] += 1
            elif set(ta) != set(tf):
                bad('rerun-did-not-complete', 're-running the killed command leaves %r, the uninterrupted run leaves %r'
                    % (sorted(set(ta) - set(tf))[:5], sorted(set(tf) - set(ta))[:5]))
            else:
                st.probes['recovery-rerun-completed'] += 1
        else:
            locs_ = [e.location for e in bag0 if e.location]
            if len(set(locs_)) == len(locs_) and CUR['k'][0] == 'kill' and (k if not isinstance(k, tuple) else 0) % 3 == 0:
                # the user tries again, this time with --overwrite and asking for everything that is still listed: what the
                # killed run had already brought back (its stale .trashinfo may still be listed) must not be lost by the retry
                pre = sim.run({'argv': ['trash-restore', '--overwrite', '/'], 'env': env, 'cwd': '/', 'uid': uid, 'stdin': '\n'})
                nl = len(OR.parse_restore_listing(pre.outs) or [])
                if nl:
                    sim.run({'argv': ['trash-restore', '--overwrite', '/'], 'env': env, 'cwd': '/', 'uid': uid, 'stdin': '0-%d\n' % (nl - 1)})
                    st.sims += 2
                    st.probes['retry-with-overwrite-after-kill'] += 1
                    s_retry = sim.snap()
                    for e in bag0:
                        if not (e.has_payload and e.location):
                            continue
                        want = OR.payload_tree(before, e)
                        if (want.get('') or ('?',))[0] == 'd':
                            continue        # (--overwrite onto an existing directory - here: a partial copy - moves the entry inside it; C06 leaves directories at the destination aside)
                        rt_ = ML.resolve(s_retry, e.tdir) or e.tdir
                        if not Wd.same_tree(want, Wd.subtree(s_retry, rt_ + '/files/' + e.name)) and not Wd.same_tree(want, Wd.subtree(s_retry, e.location)):
                            bad('lost-by-retry-with-overwrite', 'after the kill and a retry with --overwrite entry %r is complete neither in the trash nor at %r' % (e, e.location), e)
            re_ = sim.run({'argv': ['trash-empty'], 'env': env, 'cwd': '/', 'uid': uid})
            st.sims += 1
            after = sim.snap()
            left = [p for p in after if any(p.startswith((ML.resolve(after, T) or T) + '/' + sub + '/')
                                            for T, _b, _k in MB.usable_trash_dirs(after, env, uid, mounts) for sub in ('files', 'info'))]
            if re_.exc is not None:
                bad('empty-after-restore-traceback:%s' % re_.exc_frame, 'trash-empty after the killed restore raised %s' % re_.exc)
            elif left:
                bad('leftover-cannot-be-purged', 'after the killed restore, trash-empty leaves %r' % left[:5])
            else:
                st.probes['recovery-empty-after-restore'] += 1
        if len(res) > 6:
            break
    seen, out = set(), []
    for s, m in res:
        if s not in seen:
            seen.add(s)
            out.append((s, m))
    return out
