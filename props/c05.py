"""C05 - killing trash-put at any instant loses nothing and leaves no orphan
payload.  Engine K: every crash point (before each mutating op) of every
sampled scenario."""
from __future__ import annotations

import posixpath

from engines import crash as EC
from gen import base as G
from gen import trashgen as TG
from model import layout as ML
from model import trashinfo as TI
from oracles import put as OP
from oracles import readers as OR
from sim import world as Wd

ID = 'C05'
LEVEL = 'fault_enumeration'
EVAL_PROBE = 'crash-states'
ENGINE = 'crash'
BUDGET = {'quick': 700, 'thorough': 20000}
WALL = {'quick': 90, 'thorough': 1800}
RULE = ('scenarios: trash-put of 1-3 entries (every entry kind incl. deep trees and symlinks), first use of the trash dir or name collisions, '
        'home / .Trash/$uid / .Trash-$uid, same-volume (one rename) and cross-volume with the home fallback enabled twice (every copy and '
        'delete step is a crash point); for each scenario ALL crash points (kill before the k-th mutating op, k = 0..n) are visited; after '
        'each kill the crash-state invariant is checked on the raw disk, then trash-list and trash-empty run as recovery; evaluations = '
        'crash states; distinct = (entry kind, same/cross volume, first-use/collision, kind of the op the kill preceded) whose crash '
        'state differs from both the initial and the final state')
ASSUMPTIONS = ['kill = SIGKILL between two system calls of a single-threaded process; data buffered in user space is lost, what a completed call wrote is durable (no power loss)',
               'sendfile/write are atomic per call']
PROBES = ['crash-states', 'killed-mid-copy', 'killed-mid-delete', 'killed-between-info-and-rename', 'killed-with-empty-info', 'recovery-list-ok',
          'recovery-empty-ok', 'cross-volume-scenarios', 'collision-scenarios', 'first-use-scenarios', 'entry-complete-in-both']
TECHNIQUE = 'deterministic simulation with crash injection: sticky in-process kill enumerated over every mutating op of seeded scenarios; crash-state invariant + recovery commands'
LEVEL_TEXT = ('crash points are enumerated completely within each sampled scenario (the disk changes only at mutating ops, so n+1 kills cover every '
              'instant); scenarios are sampled by seed')
LEVEL_NOTE = 'trusted: sticky-kill model (no op of the dead process reaches the disk, user-space buffers are dropped), snapshot function'


def gen(rng):
    cross = rng.random() < 0.35
    L = G.make_layout(rng, nvol=rng.choice([1, 2]) if cross else rng.choice([0, 1, 1, 2]),
                      trash_states=[rng.choice(['absent', 'sticky', 'file'])] * 3,
                      alt_states=['absent'] * 3 if cross else [rng.choice(['absent', 'dir'])] * 3,
                      xdg=rng.choice(['unset', 'set']), nested=False)
    steps = L['steps']
    home, uid, env = L['home'], L['uid'], dict(L['env'])
    args = []
    kinds = []
    vols = ['/'] + L['vols']
    for i in range(rng.choice([1, 1, 2, 3])):
        vol = rng.choice(L['vols']) if (cross and L['vols']) else rng.choice(vols)
        wd = L['work'][vol]
        aux = home + '/aux' if vol == '/' else vol + '/aux'
        nm = rng.choice(['foo', 'foo', 'bar', 'sp ace', 'ü', 'new\nline', 'report.pdf', 'a.tar.gz', '.hidden.txt', 'dot.', 'v1.2',
                         # (246-253 bytes: '<name>.trashinfo' does not fit in NAME_MAX, '<name>_1' does - the info name is cut, the payload's must be too)
                         'n' * 247, 'é' * 124, 'report[1].txt']) + (str(i) if rng.random() < 0.5 else '')
        p = wd + '/' + nm
        if p in args:
            continue
        kind = rng.choice(['file', 'empty', 'dir', 'deepdir', 'deepdir', 'link_file', 'link_dir', 'link_dangling', 'modedir', 'emptydir'])
        G.make_entry(rng, p, kind, steps, aux)
        args.append(p)
        kinds.append(kind)
    collision = rng.random() < 0.4
    if collision:
        ht = G.home_trash_of(env)
        for a in args:
            nm = posixpath.basename(a)
            if len(nm.encode('utf-8')) > 240:
                continue
            G.add_trashed(steps, ht, nm, TG.pct(home + '/old/' + nm), '2020-01-01T00:00:00', 'file', tag='old')
            for v in ([] if cross else L['vols']):
                G.add_trashed(steps, v + '/.Trash-%d' % uid, nm, TG.pct('docs/' + nm), '2020-01-01T00:00:00', 'file', tag='oldv')
    neighbours = rng.random() < 0.45
    if neighbours:
        # entries whose names look like temporary / backup / partial spellings of the names about to be trashed are already in
        # every trash directory the arguments can go to: no crash state (and no completed run) may damage them
        ht = G.home_trash_of(env)
        have = set(posixpath.basename(a) for a in args) if collision else set()
        for a in args:
            for j, nn in enumerate(G.neighbour_names(rng, posixpath.basename(a))):
                if len(nn.encode('utf-8')) > 200 or nn in have:
                    continue
                have.add(nn)
                G.add_trashed(steps, ht, nn, TG.pct(home + '/old/' + nn), '2019-03-0%dT00:00:00' % (j + 1), rng.choice(['file', 'file', 'dir', 'link']), tag='nb%d' % len(have))
                for v in ([] if cross else L['vols']):
                    for T in (v + '/.Trash-%d' % uid, v + '/.Trash/%d' % uid):
                        if T.endswith('/.Trash/%d' % uid) and L['trash'][v]['top'] != 'sticky':
                            continue
                        G.add_trashed(steps, T, nn, TG.pct('docs/' + nn), '2019-03-0%dT00:00:00' % (j + 1), 'file', tag='nbv%d' % j)
    opts = []
    if cross:
        # the volume trash dirs must be unusable so that the fallback is taken
        for v in L['vols']:
            steps.append(['f', v + '/.Trash-%d' % uid, 'blocker', 0o600])
        opts.append('--home-fallback')
        env['TRASH_ENABLE_HOME_FALLBACK'] = '1'
    if rng.random() < 0.2:
        opts.append('-v')
    return {
        'world': {'mounts': L['mounts'], 'steps': steps},
        'procs': [{'argv': ['trash-put'] + opts + ['--'] + args, 'env': env, 'cwd': rng.choice(['/', home]), 'uid': uid}],
        'dirsalt': rng.randrange(1 << 30),
        'note': {'cross': cross, 'collision': collision, 'kinds': kinds, 'neighbours': neighbours},
    }


PINS = {}
CUR = {'k': None}


def pin(case, sig):
    """a replay visits only the crash point that produced ``sig``"""
    import copy
    c = copy.deepcopy(case)
    if sig in PINS:
        c['only_crash'] = PINS[sig]
    return c


def check(sim, case, st):
    spec = case['procs'][-1]
    if posixpath.basename(spec['argv'][0]) != 'trash-put':
        return []
    from props.c01 import parse_args
    files = parse_args(spec['argv'])
    mounts = OR.mounts_of(case)
    env, uid = spec.get('env', {}), spec.get('uid', 1000)
    note = case.get('note', {})
    res = []
    named = None
    first = True
    final = None
    PINS.clear()
    for k, n, before, r, snap in EC.sweep(sim, case, st):
        if k == 'full':
            named = [OP.name_entry(sim.root, spec.get('cwd', '/'), a, before, mounts) for a in files]
            if OP.related(named) or any(nm.kind != 'entry' for nm in named):
                return []
            final = snap
            if note.get('cross'):
                st.probes['cross-volume-scenarios'] += 1
            st.probes['collision-scenarios' if note.get('collision') else 'first-use-scenarios'] += 1
            continue
        st.probes['crash-states'] += 1
        killop = None
        for ev in r.trace:
            if ev[2] == 'KILL':
                killop = ev[3]
            elif ev[2] == 'INTR':
                killop = 'sigint:' + ev[3]
                st.probes['sigint-deliveries'] += 1
        tdirs = ML.trash_dirs_in(snap) | ML.trash_dirs_in(before)
        newp = [(T, N) for T in tdirs for N in ML.payloads(snap, T) - ML.payloads(before, T)]
        where = 'k=%s/%s before %s' % (k, n, killop)
        CUR['k'] = ['intr', k[1]] if isinstance(k, tuple) else ['kill', k]

        def bad(clause, msg, nm=None):
            cls = '%s/%s' % ('cross' if note.get('cross') else 'same', killop or 'end')
            sig = 'C05/%s/%s/%s' % (clause, nm.ekind if nm else '-', cls)
            PINS.setdefault(sig, list(CUR['k']))
            res.append((sig, '%s (kill %s; argv %r)' % (msg, where, spec['argv'])))
        # 1. every argument complete at its origin or complete in a trash dir
        claimed = set()
        for nm in named:
            bt = Wd.subtree(before, nm.loc)
            at_origin = Wd.same_tree(bt, Wd.subtree(snap, nm.loc))
            # (the name an entry gets in files/ is the implementation's business: any new payload that is a complete copy counts,
            # one per argument; a name derived from the argument's is preferred when several arguments have the same content)
            cands = [(T, N) for (T, N) in newp if (T, N) not in claimed and Wd.same_tree(bt, Wd.subtree(snap, T + '/files/' + N))]
            cands.sort(key=lambda c: (not OP.affinity(c[1], posixpath.basename(nm.loc)), c))
            in_trash = cands[:1]
            if not at_origin and in_trash:
                claimed.add(in_trash[0])
            if not at_origin and not in_trash:
                bad('entry-lost-or-torn', 'entry %r is complete neither at its origin nor under files/ of a trash dir: origin now %r'
                    % (nm.loc, sorted(Wd.subtree(snap, nm.loc))[:6]), nm)
            if at_origin and in_trash:
                st.probes['entry-complete-in-both'] += 1
            if snap != before and snap != final:
                st.distinct.add((nm.ekind, bool(note.get('cross')), bool(note.get('collision')), killop))
        # 1b. what was in the trash before the command is still there, whole: payload and .trashinfo of every earlier entry
        for T in ML.trash_dirs_in(before):
            for N in sorted(ML.payloads(before, T) & ML.infos(before, T)):
                ip = T + '/info/' + N + '.trashinfo'
                if not Wd.same_entry(before.get(ip), snap.get(ip)):
                    bad('earlier-entry-info-damaged', 'the .trashinfo of the earlier entry %s in %s was %r, is now %r' % (N, T, before.get(ip), snap.get(ip)))
                    break
                if not Wd.same_tree(Wd.subtree(before, T + '/files/' + N), Wd.subtree(snap, T + '/files/' + N)):
                    bad('earlier-entry-payload-damaged', 'the payload of the earlier entry %s in %s changed' % (N, T))
                    break
        # 2. every new payload has its info, present, complete, parseable
        for (T, N) in newp:
            ip = T + '/info/' + N + '.trashinfo'
            e = snap.get(ip)
            if e is None:
                bad('payload-without-info', 'files/%s exists in %s but info/%s.trashinfo does not' % (N, T, N))
                continue
            content = Wd.read_bytes(sim.root, ip)
            inf = TI.Info(content)
            if not inf.well_formed or not content.endswith(b'\n'):
                bad('payload-with-incomplete-info', 'files/%s exists in %s but its .trashinfo is incomplete: %r' % (N, T, content))
        # probes
        if killop in ('sendfile', 'fwrite', 'symlink') or (killop == 'mkdir' and any('/files/' in (ev[3] or '') for ev in r.trace[-2:])):
            st.probes['killed-mid-copy'] += 1
        if killop in ('unlink', 'rmdir'):
            st.probes['killed-mid-delete'] += 1
        if killop == 'rename':
            st.probes['killed-between-info-and-rename'] += 1
        if killop == 'write':
            st.probes['killed-with-empty-info'] += 1
        # 3. recovery: trash-list and trash-empty run without error and touch nothing outside the trash
        rl = OR.run_list(sim, env, uid)
        st.sims += 1
        if rl.exc is not None:
            bad('recovery-list-traceback:%s' % rl.exc_frame, 'trash-list after the crash raised %s' % rl.exc)
        else:
            st.probes['recovery-list-ok'] += 1
        re_ = sim.run({'argv': ['trash-empty'], 'env': env, 'cwd': '/', 'uid': uid})
        st.sims += 1
        after = sim.snap()
        if re_.exc is not None:
            bad('recovery-empty-traceback:%s' % re_.exc_frame, 'trash-empty after the crash raised %s' % re_.exc)
        else:
            st.probes['recovery-empty-ok'] += 1
        tds = ML.trash_dirs_in(snap)
        outside_changed = [p for p in set(snap) | set(after)
                           if not any(p.startswith(T + '/files/') or p.startswith(T + '/info/') for T in tds)
                           and not Wd.same_entry(snap.get(p), after.get(p))]
        if outside_changed:
            bad('recovery-touched-outside', 'trash-empty after the crash changed %r' % sorted(outside_changed)[:5])
        if len(res) > 6:
            break
    seen, out = set(), []
    for s, m in res:
        if s not in seen:
            seen.add(s)
            out.append((s, m))
    return out
