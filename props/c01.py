"""C01 - trash-put conserves data: each argument ends fully trashed or untouched.

Engine H (sequential, fault-free).  One trash-put per case; the oracle is the
frame diff of oracles/put.py between the snapshots before and after."""
from __future__ import annotations

import posixpath

from gen import base as G
from oracles import put as OP
from sim import world as Wd

ID = 'C01'
LEVEL = 'exploration'
BUDGET = {'quick': 12000, 'thorough': 300000}
WALL = {'quick': 45, 'thorough': 1500}
RULE = ('one simulated trash-put per case over a generated world (entry kind x argument spelling x '
        'options x volume/trash-dir layout); in 15 % of the cases the environment refuses to let one argument go (entry immutable / '
        'its directory not writable, as persistent conditions - single faults at every operation are C17\'s); a case is non-trivial when at least one argument names an '
        'existing entry; distinct = distinct (spelling class, entry kind, option set, trash-dir state, '
        'outcome) tuples')
ASSUMPTIONS = ['user directories in generated worlds are never named files/ or info/',
               'arguments of one command name pairwise unrelated entries']
PROBES = ['nested-operands-children-first', 'trashed', 'untouched', 'home-trash', 'volume-trash', 'collision-suffix', 'dot-refused',
          'interactive-declined', 'cross-volume-copy', 'mountroot-arg', 'environment-refuses-one-argument', 'refusal-met']


def gen_nested(rng):
    """the operands of one command lie inside one another and are given children first (find DIR -depth | xargs trash-put,
    trash-put logs/*.old logs): each is trashed on its own, in the order given"""
    L = G.make_layout(rng, nvol=0, xdg=rng.choice(['unset', 'set']))
    steps, home = L['steps'], L['home']
    top = rng.choice(['build', 'zz', 'a', 'logs dir'])
    d = home + '/w/' + top
    steps.append(['d', d + '/cache', 0o755])
    steps.append(['f', d + '/cache/obj.bin', 'object', 0o644, 1_400_000_010])
    steps.append(['f', d + '/keep.txt', 'sibling', 0o644, 1_400_000_011])
    args = rng.choice([[d + '/cache/obj.bin', d + '/cache', d], [top + '/cache/obj.bin', top + '/cache', top], [d + '/cache', d], [top + '/cache/obj.bin', top]])
    return {'world': {'mounts': L['mounts'], 'steps': steps},
            'procs': [{'argv': ['trash-put'] + rng.choice([[], [], ['-v'], ['-f']]) + ['--'] + args, 'env': dict(L['env']), 'cwd': home + '/w', 'uid': L['uid']}],
            'dirsalt': rng.randrange(1 << 30), 'note': {'nested_children_first': True}}


def check_nested(sim, case, st):
    sim.setup(case)
    spec = case['procs'][0]
    files = parse_args(spec['argv'])
    cwd = spec.get('cwd', '/')
    before = sim.snap()
    locs = [a if a.startswith('/') else posixpath.join(cwd, a) for a in files]
    r = sim.run(spec)
    st.sims += 1
    st.ops += r.nops
    after = sim.snap()
    st.probes['nested-operands-children-first'] += 1
    res = []
    left = [l for l in locs if l in after]
    from model import trashinfo as MT
    recorded = []
    for k, v in after.items():
        if '/info/' in k and k.endswith('.trashinfo') and k not in before:
            try:
                recorded.append(MT.pct_decode(MT.first_value(Wd.read_bytes(sim.root, k), b"Path")).decode('utf-8', 'surrogateescape'))
            except Exception:
                recorded.append(None)
    if r.exit != 0 or left or sorted(recorded) != sorted(locs):
        res.append(('C01/nested-operands-children-first', 'trash-put %r (cwd %r): exit %s, still in place %r, new .trashinfo files record %r (expected one per operand: %r)\nstderr: %s'
                    % (spec['argv'], cwd, r.exit, left, sorted(recorded, key=str), sorted(locs), r.errs[-400:])))
    return res


def gen(rng):
    if rng.random() < 0.015:
        return gen_nested(rng)
    L = G.make_layout(rng, xdg=rng.choice(['unset', 'unset', 'set', 'link']), homename=rng.choice(G.ODD_HOMES) if rng.random() < 0.15 else 'u')
    steps = L['steps']
    home = L['home']
    uid = L['uid']
    env = dict(L['env'])
    entries = []
    for vol, wd in sorted(L['work'].items()):
        aux = home + '/aux' if vol == '/' else vol + '/aux'
        names = G.pick_names(rng, rng.randint(1, 4), allow_invalid=rng.random() < 0.15)
        for nm in names:
            kind = rng.choice(G.KINDS)
            G.make_entry(rng, wd + '/' + nm, kind, steps, aux)
            entries.append((vol, wd, nm, kind))
            if rng.random() < 0.3:
                # same name next to the directory that 'sl' points to, so that
                # 'sl/../name' names something
                G.make_entry(rng, aux + '/' + nm, rng.choice(['file', 'dir', 'link_dangling']), steps, aux)
        steps.append(['d', wd + '/sib', 0o755])
        steps.append(['d', aux + '/d1', 0o755])
        steps.append(['l', wd + '/sl', aux + '/d1'])
    steps.append(['l', home + '/w_link', 'w'])
    # pre-existing trash content (collisions, orphans)
    ht = G.home_trash_of(env)
    if rng.random() < 0.5 and entries:
        nm = rng.choice(entries)[2]
        if len(nm.encode('utf-8', 'surrogateescape')) > 240:
            nm = 'foo'
        G.add_trashed(steps, ht, nm, home + '/w/' + nm, '2020-01-01T00:00:00', rng.choice(['file', 'dir']), tag='old')
        if rng.random() < 0.5:
            G.add_trashed(steps, ht, nm + '_1', home + '/w/' + nm, '2020-01-02T00:00:00', 'file', tag='old1')
        if rng.random() < 0.3:
            steps.append(['f', ht + '/files/' + nm + '_2', 'orphan', 0o644])
    # arguments
    cwd_choices = [home + '/w', home, '/', home + '/aux'] + [L['work'][v] for v in L['vols']]
    cwd = rng.choice(cwd_choices)
    args = []
    chosen = rng.sample(entries, min(len(entries), rng.choice([1, 1, 1, 2, 3, 4]))) if entries else []
    for vol, wd, nm, kind in chosen:
        args.append(spell(rng, wd, nm, cwd, home))
    r = rng.random()
    if r < 0.22 and rng.random() < 0.6:
        args = []          # dot entries / mount roots / missing paths often alone
    if r < 0.10:
        args.insert(rng.randint(0, len(args)), rng.choice(['.', '..', './', '../', 'sib/.', 'sib/..', 'sib/./',
                                                           'sib/../', '/', './.', '././', home + '/w/.', home + '/w/sib/..//']))
    elif r < 0.16 and L['vols']:
        args.insert(rng.randint(0, len(args)), rng.choice(L['vols']) + rng.choice(['', '/']))
    elif r < 0.22:
        args.insert(rng.randint(0, len(args)), rng.choice(['missing', home + '/w/nope', 'sib/nope', '']))
    if rng.random() < 0.03 and not any(s_[1] in (cwd.rstrip('/') + '/~', home + '/n0') for s_ in steps):
        # a directory literally called '~' in the current directory (the classic accident of a quoted "~/build" in a script) and
        # an operand that begins with a tilde: an operand is a path, not a shell word - HOME holds an entry of the same name
        steps.append(['d', cwd.rstrip('/') + '/~', 0o755])
        steps.append(['f', cwd.rstrip('/') + '/~/n0', 'inside the directory called tilde', 0o644, 1_400_000_001])
        steps.append(['f', home + '/n0', 'in HOME', 0o644, 1_400_000_002])
        args.insert(rng.randint(0, len(args)), rng.choice(['~/n0', '~/n0', '~/n0/', '~']))
    if not args:
        args = ['.']
    opts = []
    stdin = ''
    if rng.random() < 0.15:
        opts.append('-f')
    if rng.random() < 0.15:
        opts.append('-i')
        stdin = ''.join(rng.choice(['y\n', 'Y\n', 'yes\n', 'n\n', '\n', ' y\n', 'maybe\n', 'N\n', 'yn\n'])
                        for _ in range(len(args)))
        if rng.random() < 0.2:
            stdin = stdin[:rng.randint(0, len(stdin))]
    if rng.random() < 0.3:
        opts.append(rng.choice(['-v', '-vv']))
    if rng.random() < 0.1:
        opts.append(rng.choice(['-r', '-d', '-R']))
    if rng.random() < 0.15:
        td = rng.choice([home + '/mytrash', 'reltrash', home + '/w/sib/T'] +
                        [v + '/customtrash' for v in L['vols']])
        if rng.random() < 0.3:
            # spelled through '<symlink>/..': the kernel resolves it to a directory next to the link's TARGET; at the textually
            # collapsed place there is another trash directory, holding entries named like the arguments
            steps.append(['d', home + '/store/data', 0o755])
            steps.append(['l', home + '/w/datalink', home + '/store/data'])
            td = home + '/w/datalink/../.Trash-x'
            decoy = home + '/w/.Trash-x'
            steps.append(['d', decoy + '/files', 0o700])
            steps.append(['d', decoy + '/info', 0o700])
            for a_ in args:
                b_ = posixpath.basename(a_.rstrip('/'))
                if b_ and b_ not in ('.', '..') and len(b_.encode('utf-8', 'surrogateescape')) < 240:
                    steps.append(['f', decoy + '/files/' + b_, 'decoy payload - not yours to replace', 0o644])
        opts += ['--trash-dir', td]
    if rng.random() < 0.2:
        opts.append('--home-fallback')
    if rng.random() < 0.25:
        env['TRASH_ENABLE_HOME_FALLBACK'] = rng.choice(['1', '1', '0', 'yes'])
    dashdash = ['--'] if (rng.random() < 0.5 or any(a.startswith('-') for a in args)) else []
    if not dashdash and any(a.startswith('-') for a in args):
        dashdash = ['--']
    argv = ['trash-put'] + opts + dashdash + args
    faults = []
    if chosen and rng.random() < 0.15:
        # the environment refuses to let one argument go (immutable entry: EPERM; its directory not writable: EACCES):
        # a run that reports the failure must leave it exactly as it was, whatever kind of entry it is
        _vol, fwd, fnm, _kind = rng.choice(chosen)
        faults.append(rng.choice([{'kind': 'cond', 'what': 'immutable', 'entry': fwd + '/' + fnm},
                                  {'kind': 'cond', 'what': 'dir_not_writable', 'dir': fwd}]))
    return {
        'faults': faults,
        'world': {'mounts': L['mounts'], 'steps': steps},
        'procs': [{'argv': argv, 'env': env, 'cwd': cwd, 'stdin': stdin, 'uid': uid}],
        'dirsalt': rng.randrange(1 << 30),
        'umask': rng.choice([0o022, 0o022, 0o077, 0o002, 0o000]),
        'clock': {'start': '20%02d-%02d-%02dT%02d:%02d:%02d.%06d' % (
            rng.randint(0, 99), rng.randint(1, 12), rng.randint(1, 28), rng.randint(0, 23),
            rng.randint(0, 59), rng.randint(0, 59), rng.randrange(10**6))},
        'note': {'trash': L['trash'], 'home_mode': L['home_mode'], 'xdg': L['xdg']},
    }


def spell(rng, wd, nm, cwd, home):
    """a spelling of the entry wd/nm as seen from cwd"""
    P = wd + '/' + nm
    rel = posixpath.relpath(P, cwd)
    forms = ['abs', 'rel', 'rel', 'dotslash', 'dd', 'dd_sym', 'dot_comp', 'double', 'linkparent', 'abs_dd']
    f = rng.choice(forms)
    if f == 'abs':
        s = P
    elif f == 'rel':
        s = rel
    elif f == 'dotslash':
        s = './' + rel
    elif f == 'dd':
        s = posixpath.join(posixpath.dirname(rel), 'sib', '..', nm)
    elif f == 'dd_sym':
        s = posixpath.join(posixpath.dirname(rel), 'sl', '..', nm)
    elif f == 'dot_comp':
        s = posixpath.join(posixpath.dirname(rel), '.', nm)
    elif f == 'double':
        s = '/' + P
    elif f == 'linkparent':
        s = (home + '/w_link/' + nm) if wd == home + '/w' else P
    else:
        s = wd + '/sib/../' + nm
    if rng.random() < 0.25:
        s += '/' * rng.randint(1, 3)
    return s


def parse_args(argv):
    """file arguments of a trash-put command line as argparse will see them
    (enough of argparse for the option set the generator uses)"""
    files = []
    i = 1
    n = len(argv)
    only_files = False
    while i < n:
        a = argv[i]
        if only_files:
            files.append(a)
        elif a == '--':
            only_files = True
        elif a in ('--trash-dir', '--force-volume'):
            i += 1
        elif a.startswith('-') and a != '-' and len(a) > 1:
            pass
        else:
            files.append(a)
        i += 1
    return files


def opt_value(argv, name):
    for i, a in enumerate(argv):
        if a == '--':
            break
        if a == name and i + 1 < len(argv):
            return argv[i + 1]
    return None


def check(sim, case, st):
    if case.get('note', {}).get('nested_children_first'):
        return check_nested(sim, case, st)
    sim.setup(case)
    spec = case['procs'][0]
    argv = spec['argv']
    cwd = spec.get('cwd', '/')
    files = parse_args(argv)
    before = sim.snap()
    mounts = ['/'] + list(case['world'].get('mounts', []))
    named = [OP.name_entry(sim.root, cwd, a, before, mounts) for a in files]
    # shadow arguments: where os.path.normpath() of a spelling denotes another
    # entry than the kernel does (a '..' after a symlink), that other entry
    # must not be touched
    for nm in list(named):
        if 'dotdot-after-symlink' in (nm.cls or ''):
            sh = OP.name_entry(sim.root, cwd, posixpath.normpath(nm.arg), before, mounts)
            if sh.kind == 'entry' and sh.loc != nm.loc:
                sh.cls = 'shadow-of-dotdot-after-symlink'
                sh.arg = nm.arg
                named.insert(0, sh)
    if OP.related(named):
        st.probes['skipped-related-args'] += 1
        return []
    r = sim.run(spec)
    st.sims += 1
    st.ops += r.nops
    after = sim.snap()
    extra_dirs = []
    td = opt_value(argv, '--trash-dir')
    if td:
        tdabs = td if td.startswith('/') else posixpath.join(cwd, td)
        p = posixpath.normpath(tdabs) if '..' not in tdabs.split('/') else tdabs
        while p and p.strip('/') and posixpath.dirname(p) != p:
            extra_dirs.append(p)
            p = posixpath.dirname(p)
    outcomes, problems = OP.judge(sim.root, before, after, named, mounts, extra_dirs)
    res = []
    errs = r.errs
    optset = ','.join(sorted(set(a for a in argv[1:] if a.startswith('-') and a != '--')))
    for oc in outcomes:
        nm = oc.named
        if oc.state in ('trashed', 'untouched', 'half'):
            st.distinct.add((nm.cls, nm.ekind, optset, oc.state))
            st.probes[oc.state] += 1
            if oc.state == 'trashed':
                st.probes['home-trash' if ML_topdir(oc.tdir) is None else 'volume-trash'] += 1
                if oc.name != posixpath.basename(nm.loc):
                    st.probes['collision-suffix'] += 1
            if 'mountroot' in nm.cls:
                st.probes['mountroot-arg'] += 1
        if nm.kind == 'dot' and oc.state == 'untouched':
            st.probes['dot-refused'] += 1
        # honest failure: a diagnostic naming the argument => untouched
        if oc.state in ('trashed', 'half') and OP.reported_failed(errs, nm.arg):
            res.append(('C01/reported-failure-but-%s/%s/%s' % (oc.state + (':' + oc.why if oc.why else ''), nm.cls, nm.ekind),
                        'trash-put printed a failure for %r (exit %s) but the entry %r is in state %s %s\nstderr: %s'
                        % (nm.arg, r.exit, nm.loc, oc.state, oc.why, errs[-800:])))
    if case.get('faults'):
        st.probes['environment-refuses-one-argument'] += 1
        if any(ev[6] and str(ev[6]).startswith('FAULT:') for ev in r.trace):
            st.probes['refusal-met'] += 1
    if '-i' in argv and any(oc.state == 'untouched' and oc.named.kind == 'entry' for oc in outcomes) and r.exit == 0:
        st.probes['interactive-declined'] += 1
    if any(ev[2] in ('sendfile', 'symlink') or (ev[2] == 'mkdir' and '/files/' in (ev[3] or '')) for ev in r.trace):
        st.probes['cross-volume-copy'] += 1
    for oc in outcomes:
        if oc.named.cls == 'shadow-of-dotdot-after-symlink' and oc.state == 'trashed':
            res.append(('C01/wrong-entry-trashed/dotdot-after-symlink/%s' % oc.named.ekind,
                        'argument %r names %r for the kernel, but trash-put trashed %r (exit %s)'
                        % (oc.named.arg, [n.loc for n in named if n.arg == oc.named.arg][0], oc.named.loc, r.exit)))
    for clause, detail, nm in problems:
        if nm is not None:
            sig = 'C01/%s/%s/%s' % (clause, nm.cls, nm.ekind)
        else:
            # attribute leftovers to the most suspicious argument class
            cls = sorted(set(n.cls for n in named if n.kind != 'missing')) or ['none']
            sig = 'C01/%s/args=%s' % (clause, '|'.join(cls))
        res.append((sig, '%s: %s (argv %r, cwd %r, exit %s)\nstderr: %s' % (clause, detail, argv, cwd, r.exit, errs[-800:])))
    fb = '/fallback-enabled' if ('--home-fallback' in argv and
                                  spec.get('env', {}).get('TRASH_ENABLE_HOME_FALLBACK') == '1') else ''
    res = [(s + fb, m) for s, m in res]
    # de-duplicate signatures
    seen = set()
    out = []
    for s, m in res:
        if s not in seen:
            seen.add(s)
            out.append((s, m))
    return out


def ML_topdir(T):
    from model import layout as ML
    return ML.topdir_of(T, [], None)

ENGINE = 'history'
TECHNIQUE = 'deterministic simulation: seeded worlds x argument spellings x options, real trash-put main() on a virtual kernel, frame-diff oracle over full snapshots'
LEVEL_TEXT = ('seeded exploration of the input/configuration space the property quantifies over; every difference between the '
              'snapshots before and after a run must be explained by a complete trashed outcome, judged on real tmpfs semantics')
LEVEL_NOTE = ('trusted: the vkernel path translation and mount emulation (EXDEV/EBUSY/ismount), the snapshot function, the byte-level '
              '.trashinfo decoder of model/; sampled, not exhaustive')
