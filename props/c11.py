"""C11 - purging touches nothing outside the trash directories and follows no
symlink.  Engine H + an op-trace monitor inside the virtual kernel: every
mutating op of trash-empty / trash-rm must target a directory entry below
<trash dir>/files or <trash dir>/info (resolved without following the last
component)."""
from __future__ import annotations

import posixpath

from gen import base as G
from gen import trashgen as TG
from model import bag as MB
from model import layout as ML
from oracles import readers as OR
from sim import world as Wd
from sim.vkernel import K, MUTATING

ID = 'C11'
TIER = 'quick'
LEVEL = 'exploration'
ENGINE = 'history'
BUDGET = {'quick': 8000, 'thorough': 100000}
WALL = {'quick': 60, 'thorough': 1500}
RULE = ('one trash-empty (all modes) or trash-rm per case over trash content with symlink payloads (absolute, relative, dangling, '
        'chains, to files and to directories outside), directory payloads containing such links at depth <= 4, odd info names, trash '
        'dirs reached through symlinked HOME / XDG_DATA_HOME or named by --trash-dir <symlink>/../<dir> next to a decoy at the textually collapsed path; non-trivial = at least one purged payload is or contains a symlink '
        'to something outside; distinct = (command, link kinds purged, depth)')
ASSUMPTIONS = ['the checks run as root: the permission failures an ordinary user meets (unlink inside a read-only directory: EACCES) are emulated by injected persistent conditions',
               "a trash directory whose files/ or info/ is itself a symlink (foreign damage) is not generated: what 'under files/' means there is debatable"]
PROBES = ['info-named-by-dots-only', 'dot-Trash-is-a-symlink-to-a-sticky-dir', 'trash-dir-is-itself-a-symlink', 'tree-deeper-than-the-recursion-limit', 'trash-dir-spelled-through-symlink-dotdot', 'permission-conditions', 'link-payload-purged', 'link-inside-dir-purged', 'dangling-purged', 'through-symlinked-home', 'rm-command', 'empty-command',
          'mutating-ops-monitored', 'rmtree-used']
TECHNIQUE = 'deterministic simulation with an in-kernel containment monitor on every mutating op plus full-snapshot frame check'
LEVEL_TEXT = ('seeded exploration of trash contents; containment is evaluated at the op that would break it (resolved target of each '
              'mutating op) and again on the snapshot of everything outside files/ and info/')
LEVEL_NOTE = 'trusted: vkernel op interposition completeness (seam audit in the self-test), snapshot function'


def gen(rng):
    L = G.make_layout(rng, trash_states=[rng.choice(['absent', 'sticky', 'sticky', 'link_sticky']) for _ in range(4)],
                      alt_states=[rng.choice(['absent', 'dir']) for _ in range(4)],
                      xdg=rng.choice(['unset', 'set', 'link', 'link']))
    steps = L['steps']
    home = L['home']
    env = dict(L['env'])
    if rng.random() < 0.2:
        # HOME itself reached through a symlink
        steps.append(['l', '/home/ulink', 'u'])
        env['HOME'] = '/home/ulink'
        if 'XDG_DATA_HOME' in env:
            env['XDG_DATA_HOME'] = env['XDG_DATA_HOME'].replace('/home/u/', '/home/ulink/')
    L2 = dict(L, env=env)
    # things outside that must survive
    steps.append(['d', home + '/precious', 0o755])
    steps.append(['f', home + '/precious/keep.txt', 'do not delete', 0o644])
    steps.append(['d', home + '/precious/sub', 0o755])
    steps.append(['f', home + '/precious/sub/deep.txt', 'deep', 0o600])
    for v in L['vols']:
        steps.append(['f', L['work'][v] + '/volkeep', 'vk', 0o644])
    if rng.random() < 0.15:
        # the trash directory ITSELF (its last component) is a symlink: ~/.local/share/Trash -> a directory elsewhere
        ht_ = G.home_trash_of(env)
        steps.append(['d', home + '/store/RealTrash', 0o700])
        steps.append(['l', ht_, home + '/store/RealTrash'])
    for v_ in L['vols']:
        if L['trash'][v_]['top'] == 'link_sticky':
            # $topdir/.Trash is a SYMLINK to a sticky directory that holds a populated $uid directory: not a trash directory of
            # this user by the spec's rules - nothing below it may be purged
            t_ = v_ + '/.Trash/%d' % L['uid']
            G.add_trashed(steps, t_, 'planted', TG.pct('docs/planted'), '2001-01-01T00:00:00', rng.choice(['file', 'dir']), tag='planted')
            steps.append(['f', t_ + '/files/no-info-for-me', 'x', 0o644])
    locs = [t for t in TG.trash_locations(L2) if t[2]]
    n = rng.choice([1, 2, 3, 5])
    names = []
    for i in range(n):
        tdir, top, _u = rng.choice(locs)
        nm = rng.choice(['p%d' % i, 'x%d.trashinfo' % i, 'new\nline%d' % i, 'a b%d' % i, '-rf%d' % i, 'é%d' % i, '.dot%d' % i, '%%41%d' % i])
        if rng.random() < 0.06 and not any(x in names for x in ('.trashinfo', '...trashinfo', '..trashinfo')):
            # a trashed file that is itself called '.trashinfo' / '...trashinfo' (a stray info file somebody tidied away): a
            # legitimate entry, files/.trashinfo + info/.trashinfo.trashinfo
            nm = rng.choice(['.trashinfo', '...trashinfo', '..trashinfo'])
        if rng.random() < 0.12:
            # a name that is the percent-ENCODED spelling of a path that leads out of files/ (relative, through '..', or
            # absolute) to something that exists: names are literal, whoever decodes one walks out of the trash
            target = rng.choice([home + '/precious', home + '/precious/keep.txt', home + '/precious/sub'])
            spell = rng.choice([posixpath.relpath(target, tdir + '/files'), target])
            enc = ''.join(c if (c.isalnum() or c in '._-') and rng.random() < 0.9 else '%%%02X' % ord(c) for c in spell)
            enc = enc.replace('%2F', rng.choice(['%2F', '%2f']))
            nm = enc if len(enc) < 200 and enc not in names else nm
        names.append(nm)
        loc = (home + '/w/' + nm) if top is None else (L['work'][top] + '/' + nm)
        pv = TG.pct(loc if top is None else loc[len(top) + 1:])
        kind = rng.choice(['abs_dir', 'abs_file', 'rel', 'dangling', 'chain', 'tree', 'tree', 'plain', 'vol_link'])
        steps.append(['d', tdir, 0o700])
        steps.append(['d', tdir + '/files', 0o700])
        steps.append(['d', tdir + '/info', 0o700])
        p = tdir + '/files/' + nm
        if kind == 'abs_dir':
            steps.append(['l', p, home + '/precious'])
        elif kind == 'abs_file':
            steps.append(['l', p, home + '/precious/keep.txt'])
        elif kind == 'rel':
            steps.append(['l', p, posixpath.relpath(home + '/precious', tdir + '/files')])
        elif kind == 'dangling':
            steps.append(['l', p, rng.choice(['nowhere', '/no/such', '../../gone'])])
        elif kind == 'chain':
            steps.append(['l', home + '/aux/hop%d' % i, home + '/precious'])
            steps.append(['l', p, home + '/aux/hop%d' % i])
        elif kind == 'vol_link' and L['vols']:
            steps.append(['l', p, L['work'][L['vols'][0]]])
        elif kind == 'tree':
            d = p
            steps.append(['d', d, rng.choice([0o755, 0o700, 0o500])])
            depth = rng.randint(1, 4)
            for k in range(depth):
                d = d + '/l%d' % k
                steps.append(['d', d, 0o755])
                steps.append(['f', d + '/f', 'x', 0o644])
            steps.append(['l', d + '/to_dir', home + '/precious'])
            steps.append(['l', d + '/to_file', home + '/precious/keep.txt'])
            steps.append(['l', d + '/rel_up', posixpath.relpath(home + '/precious/sub', d)])
            steps.append(['l', d + '/dang', 'void'])
        else:
            steps.append(['f', p, 'plain', 0o644])
        steps.append(['f', tdir + '/info/' + nm + '.trashinfo', G.fmt_info(pv, '2021-0%d-01T00:00:00' % rng.randint(1, 9)), 0o600])
    if rng.random() < 0.5:
        tdir = rng.choice(locs)[0]
        steps.append(['d', tdir + '/files', 0o700])
        steps.append(['l', tdir + '/files/orphanlink', home + '/precious'])
    if rng.random() < 0.08:
        # an info file whose name is nothing but the suffix, or dots and the suffix: the payload name it stands for would be
        # '', '.' or '..' - that is files/ itself, or the trash directory (with its directorysizes cache)
        tdir = rng.choice(locs)[0]
        for sub in ('', '/files', '/info'):
            steps.append(['d', tdir + sub, 0o700])
        steps.append(['f', tdir + '/directorysizes', '4096 1600000000 somedir\n', 0o600])
        steps.append(['f', tdir + '/info/' + rng.choice(['', '.', '..']) + '.trashinfo',
                      G.fmt_info(TG.pct(home + '/w/p0'), '2001-02-03T00:00:00'), 0o600])
        dotnames = True
    else:
        dotnames = False
    faults = []
    if rng.random() < 0.3:
        # a trashed tree with a read-only sub-directory that holds a link to the outside: for an
        # ordinary (non-root) user unlinking inside it fails with EACCES - emulated by a condition
        tdir = rng.choice(locs)[0]
        steps.append(['d', tdir + '/files', 0o700])
        steps.append(['d', tdir + '/info', 0o700])
        steps.append(['d', tdir + '/files/rotree', 0o755])
        steps.append(['d', tdir + '/files/rotree/vendor', 0o555])
        steps.append(['l', tdir + '/files/rotree/vendor/data', home + '/precious'])
        steps.append(['f', tdir + '/files/rotree/vendor/file', 'v', 0o444])
        steps.append(['f', tdir + '/info/rotree.trashinfo', G.fmt_info(TG.pct(home + '/w/rotree'), '2021-01-01T00:00:00'), 0o600])
        faults.append({'kind': 'cond', 'what': 'dir_not_writable', 'dir': '%RESOLVE%' + tdir + '/files/rotree/vendor'})
        if rng.random() < 0.5:
            # the payload itself is a link whose unlink fails with EIO
            steps.append(['l', tdir + '/files/eiolink', home + '/precious'])
            steps.append(['f', tdir + '/info/eiolink.trashinfo', G.fmt_info(TG.pct(home + '/w/eiolink'), '2021-01-02T00:00:00'), 0o600])
            faults.append({'kind': 'cond', 'what': 'immutable', 'entry': '%RESOLVE%' + tdir + '/files/eiolink'})
    if rng.random() < 0.08:
        # the volume is full / over quota in the way copy-on-write file systems are: even unlink needs room (ENOSPC, EDQUOT).
        # The payload is a link to a file (or a directory) outside; whatever is tried to get rid of it goes for the link
        import errno as E_
        tdir = rng.choice(locs)[0]
        steps.append(['d', tdir + '/files', 0o700])
        steps.append(['d', tdir + '/info', 0o700])
        steps.append(['l', tdir + '/files/nospacelink', rng.choice([home + '/precious/keep.txt', home + '/precious/keep.txt', home + '/precious'])])
        steps.append(['f', tdir + '/info/nospacelink.trashinfo', G.fmt_info(TG.pct(home + '/w/nospacelink'), '2021-01-03T00:00:00'), 0o600])
        faults.append({'kind': 'cond', 'what': 'name_errno', 'ops': ['remove', 'unlink'], 'basename': 'nospacelink', 'errno': rng.choice([E_.ENOSPC, E_.EDQUOT])})
        names.append('nospacelink')
    if rng.random() < 0.06:
        # a payload that is an EMPTY directory without read permission (chmod a-r cache; trash-put cache): an ordinary user cannot
        # list it (emulated: EACCES on opening / listing it), rmdir would work.  However it is got rid of - or not -, files/ itself,
        # the trash directory and what lies above stay
        tdir = rng.choice(locs)[0]
        steps.append(['d', tdir + '/files', 0o700])
        steps.append(['d', tdir + '/info', 0o700])
        steps.append(['d', tdir + '/files/noread', 0o300])
        steps.append(['f', tdir + '/info/noread.trashinfo', G.fmt_info(TG.pct(home + '/w/noread'), '2021-01-04T00:00:00'), 0o600])
        faults.append({'kind': 'cond', 'what': 'dir_not_readable', 'dir': '%RESOLVE%' + tdir + '/files/noread'})
        names.append('noread')
    abyss = rng.random() < 0.004
    if abyss:
        # an abyss: a trashed tree nested deeper than the interpreter's recursion limit, with links to the outside at its top
        # and at its bottom.  shutil.rmtree gives up with RecursionError there; whatever the command does about it, the link
        # targets stay untouched
        tdir = locs[0][0]
        deep = tdir + '/files/abyss'
        steps.append(['l', deep + '/docs', home + '/precious'])
        steps.append(['f', deep + '/zz-last', 'z', 0o644])
        chain = deep + '/d' * 1100
        steps.append(['d', chain, 0o755])
        steps.append(['l', chain + '/docs', home + '/precious'])
        steps.append(['f', tdir + '/info/abyss.trashinfo', G.fmt_info(TG.pct(home + '/w/abyss'), '2001-01-01T00:00:00'), 0o600])
        names.append('abyss')
    voltd = [t for t in locs if t[1] is not None]
    if abyss:
        argv = ['trash-empty'] + rng.choice([[], ['-v'], ['0'], ['-vv']])
    elif voltd and rng.random() < 0.12:
        # --trash-dir spelled through '<symlink>/..': the kernel resolves it to the volume's trash directory; a textual
        # normalisation would name ANOTHER directory, which exists and has files/ and info/ of its own
        tdir, top, _u = rng.choice(voltd)
        steps.append(['l', home + '/stick', L['work'][top]])
        up = posixpath.relpath(tdir, posixpath.dirname(L['work'][top]))      # from the parent of the link target to the trash dir
        spelled = home + '/stick/../' + up
        decoy = posixpath.normpath(spelled)
        steps.append(['d', decoy + '/files', 0o700])
        steps.append(['d', decoy + '/info', 0o700])
        steps.append(['f', decoy + '/files/thesis.txt', 'not yours to purge', 0o644])
        steps.append(['f', decoy + '/files/unrecorded', 'no info for this one', 0o644])
        steps.append(['f', decoy + '/info/thesis.txt.trashinfo', G.fmt_info(TG.pct(home + '/w/thesis.txt'), '2001-01-01T00:00:00'), 0o600])
        argv = ['trash-empty', '--trash-dir', spelled] + rng.choice([[], ['0'], ['-v'], ['-vv'], ['-v', '-v']])
    elif rng.random() < 0.6:
        argv = ['trash-empty'] + rng.choice([[], [], ['0'], ['1'], ['-v'], ['-vv'], ['-v', '-v', '0'], ['-f', '3'], ['--trash-dir', locs[0][0]]])
    else:
        argv = ['trash-rm', rng.choice(['*', '*', rng.choice(names), 'p*', home + '/*', '/*', '?*', '*.trashinfo'])]
    return {
        'world': {'mounts': L['mounts'], 'steps': steps},
        'procs': [{'argv': argv, 'env': env, 'cwd': rng.choice(['/', home, home + '/precious']), 'uid': L['uid']}],
        'dirsalt': rng.randrange(1 << 30),
        'faults': faults,
        'note': {'dotnames': dotnames},
    }


def check(sim, case, st):
    sim.setup(case)
    if case.get('faults'):
        fixed = []
        pre = sim.snap()
        for f in case['faults']:
            f = dict(f)
            for key in ('dir', 'entry'):
                if isinstance(f.get(key), str) and f[key].startswith('%RESOLVE%'):
                    raw = f[key][len('%RESOLVE%'):]
                    d_, b_ = posixpath.split(raw)
                    rd = ML.resolve(pre, d_ if key == 'entry' else raw)
                    if rd is None:
                        f = None
                        break
                    f[key] = (rd + '/' + b_) if key == 'entry' else rd
            if f:
                fixed.append(f)
        sim.set_faults(fixed)
        st.probes['permission-conditions'] += len(fixed)
    spec = case['procs'][0]
    argv = spec['argv']
    env, uid = spec.get('env', {}), spec.get('uid', 1000)
    mounts = OR.mounts_of(case)
    snap0 = sim.snap()
    cmd = posixpath.basename(argv[0])
    tdirs = [T for T, _b, _k in MB.usable_trash_dirs(snap0, env, uid, mounts)]
    for i, a in enumerate(argv):
        if a == '--trash-dir' and i + 1 < len(argv):
            tdirs = tdirs + [argv[i + 1]] if cmd != 'trash-empty' else [argv[i + 1]]
    roots = set()
    for T in tdirs:
        rt = ML.resolve(snap0, T)
        if rt:
            for sub in ('files', 'info'):
                rs = ML.resolve(snap0, rt + '/' + sub)
                if rs == rt + '/' + sub:        # not a symlink (see ASSUMPTIONS)
                    roots.add(rs)
    offending = []
    nmon = [0]

    def monitor(ev, phase):
        if phase != 'pre' or ev[2] not in MUTATING:
            return
        nmon[0] += 1
        for pth in (ev[3], ev[4]):
            if isinstance(pth, str) and pth.startswith('/'):
                res = K.real_resolved_parent(pth)
                if not any(res.startswith(r + '/') for r in roots):
                    offending.append((ev[2], pth, res))
    r = None
    from sim import proc as P
    # the monitor is installed after setup() reset the kernel
    K.monitors.append(monitor)
    try:
        r = sim.run(spec)
    finally:
        K.monitors[:] = []
    st.sims += 1
    st.ops += r.nops
    st.probes['mutating-ops-monitored'] += nmon[0]
    st.probes['rm-command' if cmd == 'trash-rm' else 'empty-command'] += 1
    if case.get('note', {}).get('dotnames'):
        st.probes['info-named-by-dots-only'] += 1
    snap1 = sim.snap()
    res = []
    if offending:
        op, pth, rs = offending[0]
        res.append(('C11/op-outside-trash/%s/%s' % (cmd, op), '%s issued %s on %r (resolves to %r), outside files/ and info/ of %r (argv %r)'
                    % (cmd, op, pth, rs, sorted(roots), argv)))
    removed, added, changed = Wd.diff(snap0, snap1)
    inside = lambda p: any(p.startswith(r + '/') for r in roots)
    for p in removed + added + changed:
        if not inside(p):
            res.append(('C11/outside-changed/%s' % cmd, '%s changed %r outside the trash directories (removed/added/changed lists: %r %r %r; argv %r)'
                        % (cmd, p, [x for x in removed if not inside(x)][:5], [x for x in added if not inside(x)][:5],
                           [x for x in changed if not inside(x)][:5], argv)))
            break
    # 'a trashed symlink ... is unlinked': after a plain trash-empty (no DAYS, no injected condition, exit 0) of the standard trash
    # directories no top-level symlink payload is left in files/ - whatever its target does or does not resolve to
    if cmd == 'trash-empty' and r.exit == 0 and not case.get('faults') and not any(a.isdigit() or a == '--trash-dir' for a in argv[1:]):
        for rt_ in roots:
            if rt_.endswith('/files'):
                left = [k for k, v in snap1.items() if k.startswith(rt_ + '/') and '/' not in k[len(rt_) + 1:] and v[0] == 'l']
                if left:
                    res.append(('C11/link-payload-not-unlinked/%s' % cmd, 'trash-empty (exit 0) left the trashed symlink(s) %r -> %r in place'
                                % (left[:3], [snap1[k][1] for k in left[:3]])))
                    break
    kinds = set()
    depth = 0
    for p in removed:
        e = snap0.get(p)
        if e and e[0] == 'l' and inside(p):
            tgt = ML.resolve(snap0, p)
            top = any(p == r + '/' + p[len(r) + 1:].split('/')[0] for r in roots if p.startswith(r + '/')) and p.count('/') == min(
                (r.count('/') + 1) for r in roots if p.startswith(r + '/'))
            if tgt is None:
                st.probes['dangling-purged'] += 1
                kinds.add('dangling')
            elif not inside(tgt):
                st.probes['link-payload-purged' if top else 'link-inside-dir-purged'] += 1
                kinds.add(('top:' if top else 'inner:') + snap0[tgt][0])
                if not top:
                    depth = max(depth, p.count('/'))
    if any(k.endswith('/files/abyss') for k in snap0):
        st.probes['tree-deeper-than-the-recursion-limit'] += 1
        if r.exc is not None and 'Recursion' in r.exc:
            st.probes['rmtree-gave-up-with-RecursionError'] += 1
    if any(k.endswith('/.realTrash') for k in snap0):
        st.probes['dot-Trash-is-a-symlink-to-a-sticky-dir'] += 1
    if any(k.endswith('/store/RealTrash') for k in snap0):
        st.probes['trash-dir-is-itself-a-symlink'] += 1
    if any('/stick/../' in a for a in argv):
        st.probes['trash-dir-spelled-through-symlink-dotdot'] += 1
    if env.get('HOME', '').endswith('ulink') or 'xdglink' in env.get('XDG_DATA_HOME', ''):
        st.probes['through-symlinked-home'] += 1
    if any(ev[2] == 'scandir' for ev in r.trace):
        st.probes['rmtree-used'] += 1
    if kinds:
        st.distinct.add((cmd, tuple(sorted(kinds)), depth))
    return res
