"""C19 - a malformed trash entry never prevents the well-formed ones from
being handled.  Engine D: the same trash is built with (W) and without (W')
malformed neighbours; every reader is run on both; outcomes restricted to the
well-formed entries must be equal, for every directory order."""
from __future__ import annotations

import collections
import copy
import posixpath

from gen import base as G
from gen import trashgen as TG
from model import layout as ML
from oracles import readers as OR
from sim import world as Wd

ID = 'C19'
LEVEL = 'exploration'
ENGINE = 'differential'
BUDGET = {'quick': 6000, 'thorough': 150000}
WALL = {'quick': 45, 'thorough': 1500}
RULE = ('a multiset of 1-6 well-formed entries (home + volume trash dirs) is mixed with 1-4 malformed neighbours (non-.trashinfo files and '
        'directories in info/, empty / truncated / binary / non-UTF-8 infos, missing Path or DeletionDate, bad date, info without payload, '
        'payload without info, CRLF); each of trash-list, trash-restore (every sort), trash-rm PATTERN, trash-empty [DAYS] is run on the trash '
        'with and without the malformed entries under a per-case directory order; distinct = (reader + args class, sorted malformed kinds)')
ASSUMPTIONS = ["a malformed entry that still carries a parseable Path (missing/bad date, no payload, CRLF) is itself a listable entry; only the well-formed entries' outcomes are compared"]
PROBES = ['trash-dir-with-hundreds-of-entries', 'list', 'restore', 'rm', 'empty', 'empty-days', 'wellformed-entries', 'malformed-entries', 'diagnostic-printed', 'traceback-harmless',
          'small-descriptor-limit']
TECHNIQUE = 'deterministic simulation, differential: trash with vs without malformed neighbours, all four readers, seeded directory order'
LEVEL_TEXT = 'seeded exploration of mixtures x readers x arguments x directory orders; isolation judged by comparing the well-formed entries\' outcomes'
LEVEL_NOTE = 'trusted: world rebuild determinism, model/bag.py'


def gen(rng):
    L = G.make_layout(rng, nvol=rng.choice([0, 1, 2]), trash_states=[rng.choice(['absent', 'sticky'])] * 3,
                      alt_states=[rng.choice(['absent', 'dir'])] * 3, xdg=rng.choice(['unset', 'set']))
    steps = L['steps']
    env, uid, home = dict(L['env']), L['uid'], L['home']
    names = ['alpha', 'beta', 'gamma', 'delta', 'alp', 'Beta']
    made = TG.populate(rng, L, steps, n=rng.choice([1, 2, 2, 3, 4, 6]), names=names, kinds=('file', 'file', 'dir', 'link'), bulk=0.002)
    locs = [t for t in TG.trash_locations(L) if t[2]]
    used_dirs = sorted(set(m[0] for m in made)) or [locs[0][0]]
    extra = []
    kinds = []
    for i in range(rng.choice([1, 1, 2, 3, 4])):
        k = rng.choice(TG.MALFORMED)
        kinds.append(k)
        tdir = rng.choice(used_dirs if rng.random() < 0.8 else [l[0] for l in locs])
        # an undated neighbour sometimes claims the very location of a well-formed entry
        # (an older generation of the same file whose info lost its date)
        pv = TG.pct(rng.choice(made)[2]) if (made and k in ('nodate', 'baddate', 'offsetdate') and rng.random() < 0.5) else None
        TG.add_malformed(rng, extra, tdir, k, str(i), path_value=pv)
    if made and rng.random() < 0.08:
        # next to the well-formed entry X a stray file X.TRASHINFO / X.TrashInfo / X.trashinfo~ / X.trashinfo.bak (what a
        # case-folding medium, a backup tool or an editor leaves behind), well-formed inside and dated long ago: it is not an
        # info file - it describes nothing, least of all files/X
        tdir_, nm_, loc_, _d = rng.choice(made)
        if len(nm_.encode('utf-8', 'surrogateescape')) < 200:
            extra.append(['f', tdir_ + '/info/' + nm_ + rng.choice(['.TRASHINFO', '.TRASHINFO', '.TrashInfo', '.trashinfo~', '.trashinfo.bak', '.Trashinfo']),
                          G.fmt_info(TG.pct('/home/u/w/other-' + nm_[:40]) if tdir_.startswith(home) else 'docs/other', '1999-05-05T05:05:05'), 0o600])
            kinds.append('same-stem-other-case-suffix')
    if made and rng.random() < 0.1:
        # an info WITHOUT payload called X.trashinfo.trashinfo (what is left of a stray 'X.trashinfo' somebody trashed and half
        # removed), X being a well-formed entry of the same directory: it stands for files/X.trashinfo, not for files/X
        tdir_, nm_, loc_, _d = rng.choice(made)
        if len(nm_.encode('utf-8', 'surrogateescape')) < 200 and not any((m_[0] == tdir_ and m_[1] == nm_ + '.trashinfo') or m_[2] == loc_ + '.trashinfo' for m_ in made):
            extra.append(['f', tdir_ + '/info/' + nm_ + '.trashinfo.trashinfo',
                          G.fmt_info(TG.pct(loc_ + '.trashinfo') if loc_.startswith('/') and tdir_.startswith(home) else 'docs/' + TG.pct(nm_ + '.trashinfo'),
                                     rng.choice(['2001-01-01T00:00:00', '2001-01-01T00:00:00', TG.iso(TG.rand_date(rng))])), 0o600])
            kinds.append('nopayload-named-X.trashinfo')
    spare = [l[0] for l in locs if l[0] not in used_dirs and not any(l[0] == m_[0] for m_ in made)
             and not any(isinstance(s_[1], str) and (s_[1] == l[0] or s_[1].startswith(l[0] + '/')) for s_ in extra + steps)]
    if spare and rng.random() < 0.08:
        # a whole trash directory is broken: its info (or files) is a regular file - the other trash directories are still read
        t_ = rng.choice(spare)
        extra.append(['d', t_, 0o700])
        which = rng.choice(['info', 'info', 'files'])
        extra.append(['f', t_ + '/' + which, 'not a directory', 0o600])
        extra.append(['d', t_ + '/' + ('files' if which == 'info' else 'info'), 0o700])
        kinds.append(which + '-is-a-regular-file')
        if which == 'files' and rng.random() < 0.7:
            # ... and its info/ still holds .trashinfo files: their payloads are not merely absent (ENOENT), looking for
            # them fails with ENOTDIR
            for j in range(rng.randint(1, 3)):
                extra.append(['f', t_ + '/info/stranded%d.trashinfo' % j, '[Trash Info]\nPath=%s\nDeletionDate=%s\n' % (
                    TG.pct(home + '/stranded%d' % j), TG.iso(TG.rand_date(rng))), 0o600])
            kinds.append('infos-below-files-that-is-a-regular-file')
    if rng.random() < 0.006:
        # a payload WITHOUT info that is a directory nested deeper than the interpreter's recursion limit (an unpacked archive
        # bomb, a runaway script): whatever the purge does about it, the well-formed entries are purged all the same
        t_ = rng.choice(used_dirs)
        extra.append(['d', t_ + '/files/orphan_abyss' + '/d' * 1100, 0o755])
        kinds.append('orphan-nested-deeper-than-the-recursion-limit')
        dirs_ = [m_ for m_ in made if m_[0] == t_ and any(s_[0] == 'd' and s_[1] == t_ + '/files/' + m_[1] for s_ in steps)]
        if dirs_:
            # ... with a symlink at its bottom that leads to the payload (a directory) of a well-formed entry: whoever enters
            # it while removing the neighbour empties an entry that the DAYS argument says to keep
            extra.append(['l', t_ + '/files/orphan_abyss' + '/d' * 1100 + '/lnk', t_ + '/files/' + rng.choice(dirs_)[1]])
            kinds.append('abyss-holds-a-link-to-a-wellformed-payload')
    nofile = None
    if rng.random() < 0.04:
        # a small descriptor limit (ulimit -n) and more odd neighbours of one kind than that: a reader that leaks one
        # descriptor per odd neighbour runs out of them before it reaches the well-formed entries listed later
        nofile = rng.choice([16, 24, 32])
        k_ = rng.choice(['infodir_named_trashinfo', 'infodir_named_trashinfo', 'dir_in_info', 'empty', 'nonutf8', 'binary', 'info_dangling_link'])
        kinds.append(k_ + '-x%d' % (nofile + 6))
        tdir = rng.choice(used_dirs)
        for j in range(nofile + 6):
            TG.add_malformed(rng, extra, tdir, k_, 'many%d' % j)
    reader = rng.choice(['list', 'restore', 'restore', 'rm', 'empty'])
    stdin = ''
    if reader == 'list':
        argv = ['trash-list'] + rng.choice([[], [], [], ['--size'], ['--files']])
        if 'infos-below-files-that-is-a-regular-file' in kinds and rng.random() < 0.5:
            argv = ['trash-list', '--size']
    elif reader == 'restore':
        # (the directory asked about: everything, or a directory that some entries were trashed from and the odd ones were not)
        argv = ['trash-restore', rng.choice(['/', '/', '/', home, home + '/w', home + '/w/sub'] + [L['work'][v_] for v_ in L['vols']])] + rng.choice([[], [], ['--sort=date'], ['--sort=path'], ['--sort=none']])
        stdin = '?'
    elif reader == 'rm':
        argv = ['trash-rm', rng.choice(['*', 'alpha', 'al*', '*a', home + '/*', '/*', '[ab]*', 'mal_*', '*.trashinfo', 'alpha.trashinfo', '*.trash*'])]
    else:
        argv = ['trash-empty'] + rng.choice([[], ['0'], ['1'], ['100'], ['100000'], ['-v'], ['1000'], ['5000'], ['300']])
    if 'abyss-holds-a-link-to-a-wellformed-payload' in kinds and rng.random() < 0.7:
        argv = ['trash-empty', rng.choice(['100000', '100000', '5000'])]
        stdin = ''
    return {
        'world': {'mounts': L['mounts'], 'steps': steps},
        'extra_steps': extra,
        'procs': [dict({'argv': argv, 'env': env, 'cwd': '/', 'uid': uid, 'stdin': stdin}, **({'nofile': nofile} if nofile else {}))],
        'dirsalt': rng.randrange(1 << 30),
        'clock': {'start': '2024-06-01T12:00:00.000000'},
        'note': {'malformed': sorted(kinds)},
    }


def shrink_passes(case, attempt):
    from checks.framework import _ddmin_list

    def t(es):
        return attempt(dict(case, extra_steps=es))
    case = dict(case, extra_steps=_ddmin_list(case.get('extra_steps', []), t))
    return case


def run_reader(sim, case, with_extra, st, target=None):
    c = copy.deepcopy(case)
    if with_extra:
        c['world']['steps'] = c['world']['steps'] + c.get('extra_steps', [])
    sim.setup(c)
    spec = c['procs'][0]
    env, uid = spec.get('env', {}), spec.get('uid', 1000)
    snap0 = sim.snap()
    if len(case['world']['steps']) > 400:
        st.probes['trash-dir-with-hundreds-of-entries'] += 1
    kw = {}
    if posixpath.basename(spec['argv'][0]) == 'trash-restore' and target is not None:
        def user(out):
            items = OR.parse_restore_items(out) or []
            # the well-formed target is dated; an undated neighbour may claim the same location
            cnd = [i for i, d, p in items if p == target and d != 'None']
            return ('%d\n' % cnd[0]) if cnd else '\n'
        kw['stdin_fn'] = user
    r = sim.run(spec, **kw)
    st.sims += 1
    st.ops += r.nops
    snap1 = sim.snap()
    return snap0, r, snap1


def check(sim, case, st):
    spec = case['procs'][0]
    argv = spec['argv']
    cmd = posixpath.basename(argv[0])
    env, uid = spec.get('env', {}), spec.get('uid', 1000)
    mounts = OR.mounts_of(case)
    # W': without the malformed neighbours
    sim.setup(case)
    snapP = sim.snap()
    well = [e for e in OR.scan(sim, snapP, env, uid, mounts) if e.parsed is not None and e.parsed.well_formed and e.has_payload]
    if not well:
        return []
    target = None
    if cmd == 'trash-restore':
        allb = OR.scan(sim, snapP, env, uid, mounts)
        cnt = collections.Counter(e.location for e in allb)
        uniq = sorted(e.location for e in well if cnt[e.location] == 1)
        target = uniq[0] if uniq else None
    p0, pr, p1 = run_reader(sim, case, False, st, target)
    w0, wr, w1 = run_reader(sim, case, True, st, target)
    res = []
    kinds = tuple(case.get('note', {}).get('malformed', []))
    argcls = cmd + ':' + ','.join(a if (a.startswith('-') or a.isdigit()) else 'P' for a in argv[1:])
    st.probes[{'trash-list': 'list', 'trash-restore': 'restore', 'trash-rm': 'rm', 'trash-empty': 'empty'}[cmd]] += 1
    if cmd == 'trash-empty' and any(a.isdigit() for a in argv[1:]):
        st.probes['empty-days'] += 1
    st.probes['wellformed-entries'] += len(well)
    st.probes['malformed-entries'] += len(kinds)
    if spec.get('nofile'):
        st.probes['small-descriptor-limit'] += 1
    st.distinct.add((argcls, kinds))

    def bad(clause, msg):
        frame = wr.exc_frame if wr.exc is not None else '-'
        res.append(('C19/%s/%s/%s' % (clause, cmd, frame), '%s (argv %r; malformed neighbours: %r)\nstderr with neighbours: %s'
                    % (msg, argv, kinds, wr.errs[-700:])))

    if pr.exc is not None:
        return []       # the reader fails even without neighbours: not this property's business
    if cmd == 'trash-list':
        lines_p = collections.Counter(OR.phys_lines(pr.outs))
        lines_w = collections.Counter(OR.phys_lines(wr.outs))
        missing = lines_p - lines_w
        if missing:
            bad('list-lost-wellformed-lines', 'with malformed neighbours trash-list no longer prints %r' % sorted(missing.elements())[:4])
        again = [k for k in (lines_w - lines_p) if k in lines_p]
        if again:
            bad('list-prints-wellformed-line-again', 'with malformed neighbours trash-list prints %r more often than without them' % sorted(again)[:4])
    elif cmd == 'trash-restore':
        ip = OR.parse_restore_items(pr.outs) or []
        iw = OR.parse_restore_items(wr.outs) or []
        offered_p = collections.Counter((d, p) for _i, d, p in ip)
        offered_w = collections.Counter((d, p) for _i, d, p in iw)
        if offered_p - offered_w:
            bad('restore-no-longer-offers', 'with malformed neighbours trash-restore no longer offers %r' % sorted((offered_p - offered_w).elements())[:4])
        twice = [k for k in (offered_w - offered_p) if k in offered_p]
        if twice:
            bad('restore-offers-wellformed-entry-again', 'with malformed neighbours trash-restore offers %r more often than without them' % sorted(twice)[:4])
        elif target is not None:
            restored_p = Wd.same_tree(Wd.subtree(p1, target), _payload(p0, well, target))
            restored_w = Wd.same_tree(Wd.subtree(w1, target), _payload(w0, well, target))
            if restored_p and not restored_w:
                bad('restore-not-restored', 'with malformed neighbours the chosen entry %r is not restored (exit %s)' % (target, wr.exit))
    else:
        for e in well:
            gp, gw = OR.pair_gone(p1, e), OR.pair_gone(w1, e)
            ip_, iw_ = OR.pair_intact(p0, p1, e), OR.pair_intact(w0, w1, e)
            if gp != gw or ip_ != iw_:
                bad('%s-outcome-differs' % cmd.split('-')[1], 'entry %r: without neighbours %s, with neighbours %s' % (
                    e, 'removed' if gp else ('intact' if ip_ else 'modified'), 'removed' if gw else ('intact' if iw_ else 'modified')))
                break
    if wr.errs and not res:
        st.probes['diagnostic-printed'] += 1
        if wr.exc is not None:
            st.probes['traceback-harmless'] += 1
        # a diagnostic may only be about the malformed entries
        wl = [e.name for e in well]
        for ln in OR.phys_lines(wr.errs):
            for e in well:
                if (e.info in ln or e.payload in ln) and ln not in OR.phys_lines(pr.errs):
                    bad('diagnostic-about-wellformed', 'stderr line %r mentions the well-formed entry %r' % (ln, e))
                    break
    seen, out = set(), []
    for s, m in res:
        if s not in seen:
            seen.add(s)
            out.append((s, m))
    return out


def _payload(snap, well, target):
    for e in well:
        if e.location == target:
            return OR.payload_tree(snap, e)
    return {}
