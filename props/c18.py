"""C18 - trash-put acts on the named entry itself and never follows a final
symlink; restoring recreates the same link."""
from __future__ import annotations

import copy
import posixpath

from gen import base as G
from model import layout as ML
from oracles import put as OP
from oracles import readers as OR
from sim import world as Wd

ID = 'C18'
LEVEL = 'exploration'
ENGINE = 'history'
BUDGET = {'quick': 6000, 'thorough': 150000}
WALL = {'quick': 45, 'thorough': 1500}
RULE = ('trash-put of one symlink per case (to file, dir, nothing, another link, itself; relative/absolute target; target inside/outside the '
        'volume), written with 0-3 trailing slashes, with and without -f / -v / -i (answered yes), reached directly / through another symlinked directory, then trash-restore of it; '
        'non-trivial = the link resolves to something (or has trailing slashes); distinct = (link kind, target volume relation, trailing '
        'slashes, reached through link, outcome)')
ASSUMPTIONS = ["'link-to-file/' is ENOTDIR for the kernel: failing is legitimate there, following is not"]
PROBES = ['link-given-before-its-own-target', 'compared-with-a-plain-file-at-the-same-place', 'another-link-took-the-place', 'member-through-the-link-then-the-link', 'cross-volume-fallback', 'link-trashed', 'trailing-slash-on-dirlink-trashed', 'legitimate-enotdir-refusal', 'target-other-volume', 'reached-through-link',
          'restored-identical-link', 'dangling', 'chain', 'selfloop', 'with-force', 'with-interactive-yes', 'link-given-after-its-own-target']
TECHNIQUE = 'deterministic simulation of put and restore on generated symlink configurations; snapshot oracle on the link target, lstat/readlink of the payload, recorded location'
LEVEL_TEXT = 'seeded exploration of link kinds x spellings x volumes; the target subtree must be snapshot-identical after every command'
LEVEL_NOTE = 'trusted: snapshot function (readlink translated back to virtual paths), model decoder'

LINKS = ['file', 'dir', 'dangling', 'chain', 'chain_dir', 'self', 'other_vol_file', 'other_vol_dir', 'abs_dir', 'up_rel', 'root_abs', 'root_rel', 'root_chain']


def gen(rng):
    L = G.make_layout(rng, nvol=rng.choice([1, 1, 2]), trash_states=[rng.choice(['absent', 'sticky'])] * 3,
                      alt_states=[rng.choice(['absent', 'dir'])] * 3, xdg='unset')
    steps = L['steps']
    home, uid, env = L['home'], L['uid'], dict(L['env'])
    vol = rng.choice(['/'] + L['vols'])
    wd = L['work'][vol]
    aux = home + '/aux' if vol == '/' else vol + '/aux'
    other = [v for v in (['/'] + L['vols']) if v != vol]
    oaux = (home + '/aux') if (other and other[0] == '/') else ((other[0] + '/aux') if other else aux)
    kind = rng.choice(LINKS)
    nm = rng.choice(['lnk', 'my link', 'l%nk', '-l', 'ln\nk', 'é-link'])
    p = wd + '/' + nm
    steps.append(['f', aux + '/tfile', 'target file content', 0o640, 1_300_000_001])
    steps.append(['d', aux + '/tdir', 0o750])
    steps.append(['f', aux + '/tdir/member', 'member', 0o644, 1_300_000_002])
    steps.append(['d', aux + '/tdir/subdir', 0o755])
    steps.append(['f', oaux + '/ofile', 'other volume file', 0o644, 1_300_000_003])
    steps.append(['d', oaux + '/odir', 0o755])
    steps.append(['f', oaux + '/odir/omember', 'om', 0o644, 1_300_000_004])
    rel = lambda t: posixpath.relpath(t, wd)
    if kind == 'file':
        steps.append(['l', p, rng.choice([aux + '/tfile', rel(aux + '/tfile')])])
    elif kind == 'dir':
        steps.append(['l', p, rng.choice([aux + '/tdir', rel(aux + '/tdir')])])
    elif kind == 'dangling':
        steps.append(['l', p, rng.choice(['gone', '/gone/far', '../gone'])])
    elif kind == 'chain':
        steps.append(['l', aux + '/hop', 'tfile'])
        steps.append(['l', p, aux + '/hop'])
    elif kind == 'chain_dir':
        steps.append(['l', aux + '/hopd', 'tdir'])
        steps.append(['l', p, rel(aux + '/hopd')])
    elif kind == 'self':
        steps.append(['l', p, nm])
    elif kind == 'other_vol_file':
        steps.append(['l', p, oaux + '/ofile'])
    elif kind == 'other_vol_dir':
        steps.append(['l', p, oaux + '/odir'])
    elif kind == 'abs_dir':
        steps.append(['l', p, aux + '/tdir/subdir'])
    elif kind == 'root_abs':
        # sysroot -> / (chroots, container images): the link is an ordinary entry, whatever it points at
        steps.append(['l', p, '/'])
    elif kind == 'root_rel':
        steps.append(['l', p, '/'.join(['..'] * wd.count('/'))])
    elif kind == 'root_chain':
        steps.append(['l', aux + '/toroot', '/'])
        steps.append(['l', p, aux + '/toroot'])
    else:
        steps.append(['l', p, '..'])
    via = rng.random() < 0.3
    if via and rng.random() < 0.5:
        # the symlinked directory is NOT the direct parent: a real directory lies between it and the link
        steps.append(['d', wd + '/realsub', 0o755])
        # move the link under realsub
        for st_ in steps:
            if st_[0] == 'l' and st_[1] == p:
                st_[1] = wd + '/realsub/' + nm
                if not st_[2].startswith('/') and st_[2] not in (nm,):
                    st_[2] = '../' + st_[2]
        p = wd + '/realsub/' + nm
        steps.append(['l', home + '/viaw', wd])
        arg = home + '/viaw/realsub/' + nm
    elif via:
        steps.append(['l', home + '/viaw', wd])
        arg = home + '/viaw/' + nm
    else:
        arg = rng.choice([p, p, posixpath.relpath(p, home), './' + posixpath.relpath(p, home)])
    slashes = rng.choice([0, 0, 1, 2, 3])
    arg += '/' * slashes
    putopts = []
    if vol != '/' and rng.random() < 0.3:
        # the volume trash dirs are unusable and the home fallback is enabled twice:
        # the link is moved across volumes by shutil.move's copy+delete
        steps[:] = [st_ for st_ in steps if not (st_[1].endswith('/.Trash') or '/.Trash-' in st_[1] or '/.Trash/' in st_[1])]
        for v in L['vols']:
            steps.append(['f', v + '/.Trash-%d' % uid, 'blocker', 0o600])
        putopts = ['--home-fallback']
        env['TRASH_ENABLE_HOME_FALLBACK'] = '1'
    # mode options must not change what the argument denotes: -f only silences names that do not exist at all, -i asks
    mode = rng.choice([[], [], ['-f'], ['-f', '-v'], ['-v'], ['-i'], ['--force'], ['-f', '-i']])
    putopts = mode + putopts
    also = None
    if kind in ('file', 'dir', 'chain', 'chain_dir') and rng.random() < 0.15 and '-i' not in putopts:
        # the link's own target is given as an operand too, BEFORE the link: both are entries of their own
        also = {'file': aux + '/tfile', 'dir': aux + '/tdir', 'chain': aux + '/hop', 'chain_dir': aux + '/hopd'}[kind]
    target_after = None
    if not also and kind in ('dir', 'chain_dir') and rng.random() < 0.12 and '-i' not in putopts:
        # the link (often written with trailing slashes) and THEN the directory it points to, spelled with more components than
        # the link: 'trash-put current/ releases/v1' - operands are handled in the order given, the link while it still leads somewhere
        target_after = {'dir': aux + '/tdir', 'chain_dir': aux + '/hopd'}[kind]
    member_first = None
    if not also and not target_after and kind in ('dir', 'chain_dir', 'other_vol_dir') and slashes >= 1 and '-i' not in putopts and rng.random() < 0.3:
        # an entry INSIDE the link's target, spelled through the link, is an operand too, before the link itself (written with
        # trailing slashes, as shell completion does): 'trash-put current/stale.log current/'
        member_first = arg.rstrip('/') + '/' + ('omember' if kind == 'other_vol_dir' else 'member')
    occupant = None
    if rng.random() < 0.15 and not also and not member_first and not target_after:
        # between the put and the restore ANOTHER symlink appears where the trashed one was (the 'current' link was flipped to
        # the next release): without --overwrite the restore is refused; with it the trashed link takes the place of the new one
        # - the new link's target is never entered, written through or created
        steps.append(['d', home + '/aux/occ_dir', 0o755])
        steps.append(['f', home + '/aux/occ_dir/member', 'm', 0o644])
        steps.append(['f', home + '/aux/occ_file', 'occupant target', 0o644])
        occupant = {'target': rng.choice([home + '/aux/occ_dir', home + '/aux/occ_dir', home + '/aux/occ_file', home + '/aux/occ_nothing', 'occ_rel_nothing']),
                    'overwrite': rng.random() < 0.6}
    procs = [{'argv': ['trash-put'] + putopts + ['--'] + ([also] if also else []) + ([member_first] if member_first else []) + [arg] + ([target_after] if target_after else []), 'env': env, 'cwd': home, 'uid': uid, 'stdin': 'y\ny\n'},
             {'argv': ['trash-restore', '--sort=path'] + (['--overwrite'] if occupant and occupant['overwrite'] else []) + ['/'],
              'env': env, 'cwd': '/', 'uid': uid, 'stdin': '?'}]
    return {
        'world': {'mounts': L['mounts'], 'steps': steps},
        'procs': procs,
        'dirsalt': rng.randrange(1 << 30),
        'note': {'kind': kind, 'slashes': slashes, 'via': via, 'also_target': also, 'occupant': occupant, 'member_first': member_first, 'target_after': target_after},
    }


def outside(snap, loc, tds):
    """snapshot restricted to everything that is not the link itself and not a trash dir"""
    out = {}
    for k, v in snap.items():
        if k == loc:
            continue
        if any(k == t or k.startswith(t + '/') for t in tds):
            continue
        out[k] = v
    return out


def check_member_first(sim, case, st, put, files):
    """trash-put LINK/member LINK/: first an entry of the link's target directory, spelled through the link, then the link itself:
    both are trashed as what they are, each with its own original location"""
    mounts = OR.mounts_of(case)
    snap0 = sim.snap()
    nm_m = OP.name_entry(sim.root, put.get('cwd', '/'), files[0], snap0, mounts)
    nm_l = OP.name_entry(sim.root, put.get('cwd', '/'), files[1], snap0, mounts)
    if nm_m.kind != 'entry' or nm_l.kind != 'entry' or not (nm_l.ekind or '').startswith('symlink'):
        return []
    text = snap0[nm_l.loc][1]
    r = sim.run(put)
    st.sims += 1
    st.ops += r.nops
    snap1 = sim.snap()
    st.probes['member-through-the-link-then-the-link'] += 1
    outs, _p = OP.judge(sim.root, snap0, snap1, [nm_m, nm_l], mounts)
    res = []
    sig = '%s/after-a-member-of-its-target' % nm_l.ekind
    for o, what in ((outs[0], 'member'), (outs[1], 'link')):
        if o.state != 'trashed':
            res.append(('C18/%s-not-trashed-properly/%s' % (what, sig), 'trash-put %r: %r is in state %s %s (exit %s)\nstderr: %s'
                        % (put['argv'], o.named.loc, o.state, o.why, r.exit, r.errs[-400:])))
    if outs[1].state == 'trashed':
        pe = snap1.get(outs[1].tdir + '/files/' + outs[1].name)
        if pe is None or pe[0] != 'l' or pe[1] != text:
            res.append(('C18/payload-not-the-link/%s' % sig, 'payload is %r, expected a symlink to %r' % (pe, text)))
        if not res:
            # ... and into the trash directory it goes to when it is the only operand: what was trashed before it plays no part
            sim.setup(case)
            s0 = sim.snap()
            solo = dict(put, argv=put['argv'][:put['argv'].index('--') + 1] + [files[1]])
            n1 = OP.name_entry(sim.root, solo.get('cwd', '/'), files[1], s0, mounts)
            rs = sim.run(solo)
            st.sims += 1
            so, _p2 = OP.judge(sim.root, s0, sim.snap(), [n1], mounts)
            if so[0].state == 'trashed' and so[0].tdir != outs[1].tdir:
                res.append(('C18/trash-dir-depends-on-the-operand-before/%s' % sig, 'after %r the link %r goes to %r, alone it goes to %r'
                            % (files[0], files[1], outs[1].tdir, so[0].tdir)))
    return res


def check_link_then_target(sim, case, st, put, files):
    """trash-put LINK[/] TARGET: the link is handled first, while it still leads to the directory - both end up trashed, the
    link as a link"""
    mounts = OR.mounts_of(case)
    snap0 = sim.snap()
    nm_l = OP.name_entry(sim.root, put.get('cwd', '/'), files[0], snap0, mounts)
    nm_t = OP.name_entry(sim.root, put.get('cwd', '/'), files[1], snap0, mounts)
    if nm_t.kind != 'entry' or nm_l.kind != 'entry' or not (nm_l.ekind or '').startswith('symlink'):
        return []
    text = snap0[nm_l.loc][1]
    r = sim.run(put)
    st.sims += 1
    st.ops += r.nops
    snap1 = sim.snap()
    st.probes['link-given-before-its-own-target'] += 1
    outs, _p = OP.judge(sim.root, snap0, snap1, [nm_l, nm_t], mounts)
    res = []
    sig = '%s/before-its-target' % nm_l.ekind
    for o, what in ((outs[0], 'link'), (outs[1], 'target')):
        if o.state != 'trashed':
            res.append(('C18/%s-not-trashed-properly/%s' % (what, sig), 'trash-put %r: %r is in state %s %s (exit %s)\nstderr: %s'
                        % (put['argv'], o.named.loc, o.state, o.why, r.exit, r.errs[-400:])))
    if outs[0].state == 'trashed':
        pe = snap1.get(outs[0].tdir + '/files/' + outs[0].name)
        if pe is None or pe[0] != 'l' or pe[1] != text:
            res.append(('C18/payload-not-the-link/%s' % sig, 'payload is %r, expected a symlink to %r' % (pe, text)))
    return res


def check_with_target(sim, case, st, put, files):
    """trash-put TARGET LINK: the link is an entry of its own - it is trashed as a link (with its text) although what it
    points to was trashed a moment before"""
    mounts = OR.mounts_of(case)
    snap0 = sim.snap()
    nm_t = OP.name_entry(sim.root, put.get('cwd', '/'), files[0], snap0, mounts)
    nm_l = OP.name_entry(sim.root, put.get('cwd', '/'), files[1], snap0, mounts)
    if nm_t.kind != 'entry' or nm_l.kind != 'entry' or not (nm_l.ekind or '').startswith('symlink'):
        return []
    slashes = len(files[1]) - len(files[1].rstrip('/'))
    if slashes:
        return []       # once the target is gone 'link/' names nothing (ENOENT): refusing it is legitimate
    text = snap0[nm_l.loc][1]
    r = sim.run(put)
    st.sims += 1
    st.ops += r.nops
    snap1 = sim.snap()
    st.probes['link-given-after-its-own-target'] += 1
    outs, _p = OP.judge(sim.root, snap0, snap1, [nm_t, nm_l], mounts)
    res = []
    ol = outs[1]
    sig = '%s/after-its-target' % nm_l.ekind
    if ol.state != 'trashed':
        res.append(('C18/link-after-its-target-not-trashed/%s' % sig, 'trash-put %r: the link %r is in state %s %s (exit %s)\nstderr: %s'
                    % (put['argv'], nm_l.loc, ol.state, ol.why, r.exit, r.errs[-400:])))
    else:
        pe = snap1.get(ol.tdir + '/files/' + ol.name)
        if pe is None or pe[0] != 'l' or pe[1] != text:
            res.append(('C18/payload-not-the-link/%s' % sig, 'payload is %r, expected a symlink to %r' % (pe, text)))
        else:
            st.probes['link-trashed'] += 1
    return res


def check(sim, case, st):
    procs = case['procs']
    if not procs or posixpath.basename(procs[0]['argv'][0]) != 'trash-put':
        return []
    sim.setup(case)
    put = procs[0]
    from props.c01 import parse_args
    files = parse_args(put['argv'])
    also = case.get('note', {}).get('also_target')
    if also and len(files) == 2 and files[0] == also:
        return check_with_target(sim, case, st, put, files)
    mf = case.get('note', {}).get('member_first')
    if mf and len(files) == 2 and files[0] == mf:
        return check_member_first(sim, case, st, put, files)
    ta = case.get('note', {}).get('target_after')
    if ta and len(files) == 2 and files[1] == ta:
        return check_link_then_target(sim, case, st, put, files)
    if len(files) != 1:
        return []
    mounts = OR.mounts_of(case)
    env, uid = put.get('env', {}), put.get('uid', 1000)
    snap0 = sim.snap()
    arg = files[0]
    nm = OP.name_entry(sim.root, put.get('cwd', '/'), arg, snap0, mounts)
    if nm.kind != 'entry' or not (nm.ekind or '').startswith('symlink'):
        return []
    loc = nm.loc
    target = snap0[loc][1]
    # what the kernel says about the operand as written: 'dangling/' is ENOENT, 'link-to-file/' ENOTDIR (the name designates
    # nothing), 'loop/' and the 41st link of a chain are ELOOP (something is there, it cannot be walked)
    kerr = None
    try:
        from sim.vkernel import O as _O
        _O.lstat(sim.root + (arg if arg.startswith('/') else posixpath.join(put.get('cwd', '/'), arg)))
    except OSError as e_:
        import errno as _E
        kerr = _E.errorcode.get(e_.errno)
    r = sim.run(put)
    if '--home-fallback' in put['argv']:
        st.probes['cross-volume-fallback'] += 1
    if any(a in ('-f', '--force') for a in put['argv']):
        st.probes['with-force'] += 1
    if '-i' in put['argv']:
        st.probes['with-interactive-yes'] += 1
    st.sims += 1
    st.ops += r.nops
    snap1 = sim.snap()
    res = []
    slashes = len(arg) - len(arg.rstrip('/'))
    note = case.get('note', {})
    tkind = nm.ekind.split('->')[1]
    tres = ML.resolve(snap0, loc)
    tvol = ML.volume_of(mounts, tres) if tres else None
    if tvol is not None and tvol != ML.volume_of(mounts, posixpath.dirname(loc)):
        st.probes['target-other-volume'] += 1
    if note.get('via'):
        st.probes['reached-through-link'] += 1
    if note.get('kind') in ('dangling', 'chain', 'chain_dir', 'self'):
        st.probes[{'chain_dir': 'chain'}.get(note['kind'], note['kind']) if note['kind'] != 'self' else 'selfloop'] += 1
    sig = '%s/slashes=%d' % (nm.ekind, min(slashes, 1))

    def bad(clause, msg):
        res.append(('C18/%s/%s' % (clause, sig), '%s (argv %r, exit %s)\nstderr: %s' % (msg, put['argv'], r.exit, r.errs[-500:])))

    # the target and everything else outside link + trash is untouched
    tds = ML.trash_dirs_in(snap0) | ML.trash_dirs_in(snap1)
    o0, o1 = outside(snap0, loc, tds), outside(snap1, loc, tds)
    # directories created on the way to the trash dir are fine
    extra = [k for k in o1 if k not in o0 and not (o1[k][0] == 'd' and any(t.startswith(k + '/') for t in ML.trash_dirs_in(snap1)))]
    missing = [k for k in o0 if k not in o1]
    changed = [k for k in o0 if k in o1 and not Wd.same_entry(o0[k], o1[k])]
    if extra or missing or changed:
        bad('target-or-surroundings-changed', 'put changed things other than the link: missing %r added %r changed %r' % (missing[:5], extra[:5], changed[:5]))
    outs, _p = OP.judge(sim.root, snap0, snap1, [nm], mounts)
    oc = outs[0]
    outcome = oc.state
    force = any(a in ('-f', '--force') for a in put['argv'])
    if r.exit == 0 and oc.state == 'untouched' and force and slashes and tkind != 'dir' and kerr in ('ENOENT', 'ENOTDIR'):
        # 'link-to-file/' and 'dangling/' name nothing (ENOTDIR / ENOENT): under -f a name that does not exist is skipped silently
        st.probes['legitimate-force-skip-of-enotdir-name'] += 1
    elif r.exit == 0:
        if oc.state != 'trashed':
            bad('exit0-not-trashed', 'exit 0 but the link is in state %s %s' % (oc.state, oc.why))
        else:
            pe = snap1.get(oc.tdir + '/files/' + oc.name)
            if pe is None or pe[0] != 'l' or pe[1] != target:
                bad('payload-not-the-link', 'payload is %r, expected a symlink to %r' % (pe, target))
            st.probes['link-trashed'] += 1
            if slashes and tkind == 'dir':
                st.probes['trailing-slash-on-dirlink-trashed'] += 1
    else:
        if loc not in snap1 or snap1[loc] != snap0[loc]:
            bad('failed-but-link-changed', 'exit %s but the link changed: %r -> %r' % (r.exit, snap0.get(loc), snap1.get(loc)))
        if slashes and tkind == 'dir':
            bad('dirlink-with-trailing-slash-refused', 'a link to a directory written with trailing slashes must be trashed as the link itself')
        elif slashes and tkind != 'dir':
            st.probes['legitimate-enotdir-refusal'] += 1
        elif not slashes:
            bad('plain-link-not-trashed', 'trash-put failed on a symlink written without trailing slash')
    st.distinct.add((any(a in ('-f', '--force') for a in put['argv']), note.get('kind'), tvol != ML.volume_of(mounts, posixpath.dirname(loc)) if tvol else None, slashes, bool(note.get('via')), outcome))
    # restore recreates the same link
    if oc.state == 'trashed' and len(procs) > 1 and posixpath.basename(procs[1]['argv'][0]) == 'trash-restore':
        def user(out):
            items = OR.parse_restore_items(out) or []
            c = [i for i, _d, pth in items if pth == loc]
            return ('%d\n' % c[0]) if c else '\n'
        occ = note.get('occupant')
        if occ and loc not in sim.snap():
            Wd.build(sim.root, {'steps': [['l', loc, occ['target']]]})
            st.probes['another-link-took-the-place'] += 1
            o0 = outside(sim.snap(), loc, tds)
        else:
            occ = None
        rr = sim.run(procs[1], stdin_fn=user)
        st.sims += 1
        snap2 = sim.snap()
        if occ and not occ['overwrite']:
            if snap2.get(loc) != ('l', occ['target']) or rr.exit == 0:
                res.append(('C18/restore-over-new-link-not-refused/%s' % sig, 'a new link -> %r sits at %r, no --overwrite: now %r, restore exit %s'
                            % (occ['target'], loc, snap2.get(loc), rr.exit)))
        elif snap2.get(loc) != snap0[loc]:
            res.append(('C18/restore-not-identical-link/%s' % sig, 'after restore %r is %r, originally %r (restore exit %s, stderr %s)'
                        % (loc, snap2.get(loc), snap0[loc], rr.exit, rr.errs[-300:])))
        else:
            st.probes['restored-identical-link'] += 1
        o2 = outside(snap2, loc, tds)
        ch = [k for k in o0 if k in o2 and not Wd.same_entry(o0[k], o2[k])] + [k for k in o0 if k not in o2]
        if ch:
            res.append(('C18/restore-touched-target/%s' % sig, 'restore changed %r' % ch[:5]))
    if oc.state == 'trashed' and not res:
        # the link is an entry like any other: it goes to the trash directory that a plain file of the same name at the same
        # place goes to - where its target lies (another volume, a volume's top directory, nowhere) plays no part
        twin = copy.deepcopy(case)
        hit = [st_ for st_ in twin['world']['steps'] if st_[0] == 'l' and st_[1] == loc]
        if len(hit) == 1:
            hit[0][:] = ['f', loc, 'a plain file where the link was', 0o644]
            tput = dict(put, argv=[a if a != arg else arg.rstrip('/') for a in put['argv']])
            sim.setup(twin)
            t0 = sim.snap()
            tnm = OP.name_entry(sim.root, tput.get('cwd', '/'), arg.rstrip('/'), t0, mounts)
            if tnm.kind == 'entry' and tnm.loc == loc:
                tr = sim.run(tput)
                st.sims += 1
                st.ops += tr.nops
                touts, _p = OP.judge(sim.root, t0, sim.snap(), [tnm], mounts)
                st.probes['compared-with-a-plain-file-at-the-same-place'] += 1
                if touts[0].state == 'trashed' and touts[0].tdir != oc.tdir:
                    bad('trash-dir-depends-on-the-target', 'the link %r -> %r was trashed into %r, a plain file of the same name at the same place goes to %r'
                        % (loc, target, oc.tdir, touts[0].tdir))
    seen, out = set(), []
    for s, m in res:
        if s not in seen:
            seen.add(s)
            out.append((s, m))
    return out
