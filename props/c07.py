"""C07 - trash-put picks the trash dir the spec prescribes, on the file's own
volume."""
from __future__ import annotations

import posixpath

from gen import base as G
from model import bag as MB
from model import chooser as MC
from model import layout as ML
from oracles import put as OP
from oracles import readers as OR
from sim import world as Wd

ID = 'C07'
LEVEL = 'exploration'
ENGINE = 'history'
BUDGET = {'quick': 15000, 'thorough': 400000}
WALL = {'quick': 45, 'thorough': 1500}
RULE = ('one trash-put per case, of one file - or, in a quarter of the cases, of 2-4 files lying on different volumes - over the lattice: home on / or on its own volume, 0-3 extra volumes, nested mount, state of '
        '.Trash (absent, sticky, non-sticky, symlink, file) and of .Trash-$uid (absent, dir, file, symlink to another volume), file on the '
        'home volume / another volume / nested volume / reached through a volume-crossing symlink, XDG_DATA_HOME set/unset/empty/through a '
        'symlink, --trash-dir, fallback switches, uids, umasks, a file system that refuses chmod (8 %); for 10 % of the cases every kill / Ctrl-C point of the run is swept and the modes of the trash directories created so far are checked; non-trivial = the file is not on the home-trash volume or an option/env '
        'switch is involved; distinct = (home mode, file place, .Trash state, .Trash-uid state, xdg, options, chosen kind)')
ASSUMPTIONS = ['relative XDG_DATA_HOME and unset HOME are not generated (the statement does not define them)',
               'worlds where the prescribed directory cannot be created (parent is a file) are not generated']
PROBES = ['HOME-not-in-the-environment', 'chmod-refused-by-the-file-system', 'crash-points-with-modes-checked', 'with-concurrent-companion', 'arguments-on-different-volumes', 'home-chosen', 'top-chosen', 'alt-chosen', 'custom-chosen', 'none-chosen', 'created-0700', 'cross-volume-symlink-path',
          'xdg-empty', 'fallback-copy', 'alt-symlink-other-volume', 'umask-not-022']
TECHNIQUE = 'deterministic simulation of trash-put over the configuration lattice; chosen directory compared with a spec-level chooser; op-trace monitor for EXDEV/copy and stdin reads'
LEVEL_TEXT = 'seeded exploration of mount layouts x .Trash states x env x options; decision-table check against model/chooser.py plus mode and same-volume checks'
LEVEL_NOTE = 'trusted: model/chooser.py, vkernel mount emulation'


def gen(rng):
    ts = [rng.choice(G.TRASH_STATES) for _ in range(4)]
    als = [rng.choice(['absent', 'absent', 'dir', 'file', 'link_other']) for _ in range(4)]
    xdg = rng.choice(['unset', 'unset', 'set', 'link', 'empty'])
    L = G.make_layout(rng, trash_states=ts, alt_states=als, xdg=xdg)
    steps = L['steps']
    home, uid, env = L['home'], L['uid'], dict(L['env'])
    for v_ in L['vols']:
        # the per-user directory may already be there from earlier days (when .Trash was still fine): what counts is the
        # state of $topdir/.Trash NOW
        if L['trash'][v_]['top'] in ('sticky', 'nonsticky', 'nonsticky_sgid', 'nonsticky_suid', 'link_sticky', 'link_nonsticky') and rng.random() < 0.5:
            steps.append(['d', v_ + '/.Trash/%d' % uid, 0o700])
            if rng.random() < 0.5:
                steps.append(['d', v_ + '/.Trash/%d/files' % uid, 0o700])
                steps.append(['d', v_ + '/.Trash/%d/info' % uid, 0o700])
    if rng.random() < 0.12:
        # trash directories that exist but are INCOMPLETE: info/ without files/ (somebody emptied the trash with rm -rf .../files)
        # or files/ without info/: what is missing is created on demand, the directory is still the one to use
        cands_ = [G.home_trash_of(env)] + [v_ + '/.Trash-%d' % uid for v_ in L['vols'] if L['trash'][v_]['alt'] in ('absent', 'dir')] + \
                 [v_ + '/.Trash/%d' % uid for v_ in L['vols'] if L['trash'][v_]['top'] == 'sticky']
        for t_ in cands_:
            if rng.random() < 0.6:
                steps.append(['d', t_, 0o700])
                steps.append(['d', t_ + '/' + rng.choice(['info', 'info', 'files']), 0o700])
    if rng.random() < 0.05:
        # HOME is not in the environment (a cron job, a systemd unit, env -i): there is no home trash unless XDG_DATA_HOME names one
        env.pop('HOME', None)
    tdmount = None
    if rng.random() < 0.06:
        # a trash directory that is itself a mount point (a tmpfs or a dedicated disk mounted on ~/.local/share/Trash, on
        # $topdir/.Trash-$uid): it is on ANOTHER volume than the files around it
        cands_ = [c_ for c_ in [G.home_trash_of(env)] if c_] + [v_ + '/.Trash-%d' % uid for v_ in L['vols'] if L['trash'][v_]['alt'] in ('absent', 'dir')]
        tdmount = rng.choice(cands_ or [home + '/.local/share/Trash'])
        steps.append(['d', tdmount, 0o700])
        L['mounts'].append(tdmount)
    ht_ = G.home_trash_of(env)
    if ht_ and tdmount is None and rng.random() < 0.05 and not any(s_[1] == ht_ or s_[1].startswith(ht_ + '/') for s_ in steps):
        # the home trash directory is itself a symlink to a directory (Trash moved to a bigger disk, a link left behind): the
        # directory it leads to is the trash directory - used for the files of the volume THAT directory is on
        real_ = rng.choice([home + '/realtrash'] + [v_ + '/realtrash' for v_ in L['vols']])
        steps.append(['d', real_, 0o700])
        if rng.random() < 0.5:
            steps.append(['d', real_ + '/files', 0o700])
            steps.append(['d', real_ + '/info', 0o700])
        steps.append(['l', ht_, real_])
    place = rng.choice(['home', 'home', 'vol', 'vol', 'nested', 'via_link', 'link_parent', 'root_tmp', 'link_arg_slash'])
    if place in ('vol', 'via_link', 'link_arg_slash') and not L['vols']:
        place = 'home'
    if place == 'nested' and not any(v.endswith('/nested') for v in L['vols']):
        place = 'vol' if L['vols'] else 'home'
    if place == 'home':
        d = home + '/w'
        arg = d + '/target'
    elif place == 'vol':
        v = rng.choice(L['vols'])
        d = L['work'][v]
        arg = d + '/target'
    elif place == 'nested':
        v = [x for x in L['vols'] if x.endswith('/nested')][0]
        d = L['work'][v]
        arg = d + '/target'
    elif place == 'via_link':
        v = rng.choice(L['vols'])
        d = L['work'][v]
        steps.append(['l', home + '/w/xlink', d])
        arg = home + '/w/xlink/target'
    elif place == 'link_parent':
        d = home + '/w/realdir'
        steps.append(['d', d, 0o755])
        steps.append(['l', home + '/w/dirlink', 'realdir'])
        arg = home + '/w/dirlink/target'
    elif place == 'link_arg_slash':
        # the argument itself is a symlink (on the home volume) to a directory on another
        # volume, written with trailing slashes: the link is the entry, its volume the home volume
        v = rng.choice(L['vols'])
        d = home + '/w'
        steps.append(['d', L['work'][v] + '/far', 0o755])
        steps.append(['l', d + '/target', L['work'][v] + '/far'])
        arg = d + '/target' + '/' * rng.randint(1, 2)
    else:
        d = '/tmp'
        arg = '/tmp/target'
    if place != 'link_arg_slash':
        G.make_entry(rng, d + '/target', rng.choice(['file', 'dir', 'link_dangling']), steps, home + '/aux')
    opts = []
    if rng.random() < 0.15:
        opts += ['--trash-dir', rng.choice([home + '/ct', d + '/../ct2', 'relct'] + [v + '/ct' for v in L['vols']])]
    elif L['vols'] and rng.random() < 0.04:
        # --trash-dir spelled through '<symlink>/..', the link leading to a directory of another volume: the kernel resolves it to
        # a directory on THAT volume (a textual normalisation names a directory next to the link)
        v_ = rng.choice(L['vols'])
        steps.append(['l', home + '/stick', L['work'][v_]])
        opts += ['--trash-dir', home + '/stick/../ct3']
    if rng.random() < 0.2:
        opts.append('--home-fallback')
    if rng.random() < 0.2:
        env['TRASH_ENABLE_HOME_FALLBACK'] = rng.choice(['1', '1', '0'])
    if rng.random() < 0.2:
        opts.append('-v')
    cwd = rng.choice(['/', home, d])
    companion = None
    args = [arg]
    if rng.random() < 0.25 and L['vols']:
        # several arguments in one command, on different volumes: each one gets the directory prescribed for ITS volume
        places = [home + '/w'] + [L['work'][v] for v in L['vols']]
        rng.shuffle(places)
        for i, d2 in enumerate(places[:rng.randint(1, 3)]):
            G.make_entry(rng, d2 + '/extra%d' % i, rng.choice(['file', 'dir', 'link_dangling']), steps, home + '/aux')
            args.append(d2 + '/extra%d' % i)
        rng.shuffle(args)
    elif rng.random() < 0.25:
        # another trash-put of the same user, on the same volume, at the same time
        steps.append(['f', d + '/companion-file', 'companion', 0o644])
        companion = {'argv': ['trash-put'] + [o for o in opts if o != '-v'] + ['--', d + '/companion-file'], 'env': env, 'cwd': '/', 'uid': uid}
    import errno as _E
    faults = []
    if rng.random() < 0.08 and L['vols'] and not any(o == '--home-fallback' for o in opts):
        # volumes whose file system refuses chmod (FAT-like): a directory must be BORN private, it cannot be narrowed afterwards
        for v in L['vols']:
            faults.append({'kind': 'cond', 'what': 'op_errno', 'op': 'chmod', 'dir': v, 'errno': _E.EPERM})
    return {
        'faults': faults,
        'crash_modes': companion is None and rng.random() < 0.1,
        'companion': companion,
        'sched_seed': rng.randrange(1 << 30),
        # (in 10 % of the worlds some volumes have a file-system type that the partition listing leaves out - tmpfs, overlay, sshfs,
        # a ZFS dataset: they are mount points all the same, and trash-put goes by mount points)
        'world': {'mounts': L['mounts'], 'steps': steps, 'unlisted': [v for v in L['vols'] if rng.random() < 0.6] if rng.random() < 0.1 else []},
        'procs': [{'argv': ['trash-put'] + opts + ['--'] + args, 'env': env, 'cwd': cwd, 'uid': uid, 'stdin': 'n\nn\n'}],
        'dirsalt': rng.randrange(1 << 30),
        'umask': rng.choice([0o022, 0o022, 0o077, 0o002, 0o000, 0o027]),
        'note': {'home_mode': L['home_mode'], 'place': place, 'xdg': xdg},
    }


def check(sim, case, st):
    sim.setup(case)
    spec = case['procs'][0]
    argv = spec['argv']
    from props.c01 import parse_args, opt_value
    files = parse_args(argv)
    if not files:
        return []
    env, uid, cwd = spec.get('env', {}), spec.get('uid', 1000), spec.get('cwd', '/')
    if env.get('XDG_DATA_HOME') and not env['XDG_DATA_HOME'].startswith('/'):
        return []
    if not env.get('HOME'):
        st.probes['HOME-not-in-the-environment'] += 1
    mounts = OR.mounts_of(case)
    snap0 = sim.snap()
    nms = [OP.name_entry(sim.root, cwd, f, snap0, mounts) for f in files]
    if any(n.kind != 'entry' or 'mountroot' in n.cls for n in nms) or OP.related(nms):
        return []
    td = opt_value(argv, '--trash-dir')
    fb = '--home-fallback' in argv and env.get('TRASH_ENABLE_HOME_FALLBACK') == '1'
    comp = case.get('companion')
    if comp and len(files) == 1:
        import random as _random
        from sim import sched as SS
        cn = OP.name_entry(sim.root, comp.get('cwd', '/'), comp['argv'][-1], snap0, mounts)
        if cn.kind != 'entry' or OP.related(nms + [cn]):
            return []
        chooser = SS.Chooser(_random.Random(case.get('sched_seed', 0)), 'uniform', nprocs=2)
        results, _sch = SS.run_concurrent(sim, [spec, comp], chooser)
        r = results[0]
        st.probes['with-concurrent-companion'] += 1
        snap1 = sim.snap()
        outs, probs = OP.judge(sim.root, snap0, snap1, nms + [cn], mounts, [])
    else:
        r = sim.run(spec)
        snap1 = sim.snap()
        outs, probs = OP.judge(sim.root, snap0, snap1, nms, mounts, [])
    st.sims += 1
    st.ops += r.nops
    res = []
    note = case.get('note', {})
    if case.get('umask', 0o022) != 0o022:
        st.probes['umask-not-022'] += 1
    if env.get('XDG_DATA_HOME') == '':
        st.probes['xdg-empty'] += 1
    optset = ','.join(a for a in argv[1:] if a.startswith('--') and a != '--') + (',env-fb' if env.get('TRASH_ENABLE_HOME_FALLBACK') == '1' else '')
    vols_of_args = set(ML.volume_of(mounts, posixpath.dirname(n.loc) or '/') for n in nms)
    if len(vols_of_args) > 1:
        st.probes['arguments-on-different-volumes'] += 1
    for ai, (nm, afile) in enumerate(zip(nms, files)):
        oc = outs[ai]
        parent_real = posixpath.dirname(nm.loc) or '/'
        # the directories an earlier argument creates (.Trash/$uid, .Trash-$uid, files, info) do not change what is prescribed
        exp, why = MC.prescribed(snap0, mounts, env, uid, parent_real, td, cwd, fb)
        vf = ML.volume_of(mounts, parent_real)
        if parent_real != (posixpath.dirname(afile) if afile.startswith('/') else None) and \
                ML.volume_of(mounts, posixpath.dirname(afile) if afile.startswith('/') else cwd) != vf:
            st.probes['cross-volume-symlink-path'] += 1
        ctx = '(argument %r of argv %r, cwd %r, env %r, uid %d, mounts %r, file volume %r; model: %s)\nstderr: %s' % (
            afile, argv, cwd, env, uid, mounts, vf, '; '.join(why), r.errs[-600:])
        place = note.get('place', '?') if len(files) == 1 else ('multi:arg%d-of-%d-volumes' % (ai, len(vols_of_args)))
        sigctx = '%s/xdg=%s%s' % (place, 'empty' if env.get('XDG_DATA_HOME') == '' else ('set' if env.get('XDG_DATA_HOME') else 'unset'),
                                  '/fallback-enabled' if fb else '')
        chosen_kind = 'none'
        if oc.state == 'trashed':
            T = oc.tdir            # resolved location (snapshot paths are symlink-free)
            expr = [MC.deepest_existing(snap1, e) for e in exp]
            if T in expr:
                e0 = exp[expr.index(T)]
                h = MB.home_trash(env)
                chosen_kind = 'custom' if td else ('home' if e0 == h else ('top' if '/.Trash/' in e0 else 'alt'))
            else:
                chosen_kind = 'wrong'
                res.append(('C07/wrong-dir/%s' % sigctx, 'entry went to %r, the spec prescribes %r %s' % (T, exp, ctx)))
            # same volume, no copy
            if ML.volume_of(mounts, T) != vf and not fb:
                res.append(('C07/other-volume/%s' % sigctx, 'trash dir %r is on volume %r, the file on %r %s' % (T, ML.volume_of(mounts, T), vf, ctx)))
            # modes of what was created
            for p in (T, T + '/files', T + '/info'):
                if p not in snap0 and p in snap1 and snap1[p][0] == 'd':
                    if snap1[p][1] & 0o777 != 0o700:        # (a directory made inside a setgid directory inherits the setgid bit: 2700 is private too)
                        res.append(('C07/created-mode/%s' % sigctx, 'created %r with mode %o under umask %o %s' % (p, snap1[p][1], case.get('umask', 0o022), ctx)))
                    else:
                        st.probes['created-0700'] += 1
        elif oc.state == 'untouched':
            if exp:
                res.append(('C07/not-trashed/%s' % sigctx, 'the spec prescribes %r but trash-put did not trash the file (exit %s) %s' % (exp, r.exit, ctx)))
        else:
            res.append(('C07/half/%s' % sigctx, 'argument ended half-trashed: %s %s' % (oc.why, ctx)))
        if chosen_kind != 'wrong':
            st.probes[chosen_kind + '-chosen'] += 1
        trivial = (chosen_kind == 'home' and not td and not optset and note.get('place') == 'home' and env.get('XDG_DATA_HOME') is None
                   and len(files) == 1)
        if not trivial:
            st.distinct.add((note.get('home_mode'), note.get('place') if len(files) == 1 else 'multi', MB.top_state(snap0, vf),
                             (snap0.get((vf if vf != '/' else '') + '/.Trash-%d' % uid) or ('absent',))[0],
                             note.get('xdg'), optset, chosen_kind))
    # trace monitors
    copied = any(ev[2] in ('sendfile', 'copy_file_range') or (ev[2] == 'rename' and ev[6] == 'E:EXDEV') for ev in r.trace)
    if copied:
        if fb:
            st.probes['fallback-copy'] += 1
        else:
            res.append(('C07/cross-device-without-fallback/%s' % sigctx, 'a rename returned EXDEV / a copy ran although the home fallback is not enabled twice %s' % ctx))
    if r.stdin_read:
        res.append(('C07/prompted/%s' % sigctx, 'trash-put read from stdin (prompted) although neither -i nor anything else asks for it %s' % ctx))
    if any('.Trash-' in (k or '') and v[0] == 'l' for k, v in snap0.items()):
        st.probes['alt-symlink-other-volume'] += 1
    if case.get('faults'):
        st.probes['chmod-refused-by-the-file-system'] += 1
    if case.get('crash_modes') and not comp and not res:
        # "created private": at no instant - whenever the command is killed or interrupted - may a trash directory it created be
        # more open than 0700, and a later undisturbed run must not settle for a directory left too open
        from engines import crash as EC
        c2 = dict(case, faults=[])
        for k, n, before, rk, snapk in EC.sweep(sim, c2, st, max_points=40):
            if k == 'full':
                continue
            wrong = []
            for T in ML.trash_dirs_in(snapk):
                for p in (T, T + '/files', T + '/info'):
                    if p not in before and p in snapk and snapk[p][0] == 'd' and snapk[p][1] & 0o777 != 0o700:
                        wrong.append((p, snapk[p][1]))
            st.probes['crash-points-with-modes-checked'] += 1
            if wrong:
                res.append(('C07/created-mode-at-crash/%s' % ('sigint' if isinstance(k, tuple) else 'kill'),
                            'trash-put stopped before its mutating op #%r of %d: %s exist with modes %s (umask %o, argv %r)'
                            % (k, n, [w[0] for w in wrong], [oct(w[1]) for w in wrong], case.get('umask', 0o022), argv)))
                break
    seen, out = set(), []
    for s, m in res:
        if s not in seen:
            seen.add(s)
            out.append((s, m))
    return out
