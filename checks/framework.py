"""Check framework: seeds -> cases -> simulated runs -> oracles; violations are
minimised, written as replay files and classified against known_findings.json;
evidence is measured and written on every run.

A property module (props/cNN.py) provides
    ID, LEVEL, RULE, BUDGET = {'quick': n, 'thorough': n}, ASSUMPTIONS, COMPONENTS
    gen(rng) -> case                       (JSON-serialisable, pure function of rng)
    check(sim, case, st) -> [(sig, msg)]   (executes the case; total over sub-cases)
    optional: SHRINK = list of pass names, nontrivial key via st.distinct
"""
from __future__ import annotations

import collections
import concurrent.futures as cf
import faulthandler
import fnmatch
import hashlib
import importlib
import json
import multiprocessing
import os
import random
import sys
import time
import traceback

VERIF = os.path.dirname(os.path.dirname(os.path.abspath(__file__)))


def seed_for(master, prop, i):
    h = hashlib.sha256(('%d/%s/%d' % (master, prop, i)).encode()).digest()
    return int.from_bytes(h[:8], 'big')


class Stats(object):
    def __init__(self):
        self.runs = 0                 # cases generated
        self.sims = 0                 # simulated process executions
        self.ops = 0                  # interposed ops
        self.distinct = set()         # distinct non-trivial keys
        self.counters = collections.Counter()
        self.faults = collections.Counter()    # fault kinds fired
        self.probes = collections.Counter()
        self.samples = []
        self.simtime = 0.0            # simulated seconds covered
        self.crashpoints = 0
        self.states = set()
        self.transitions = set()

    def merge(self, o):
        self.runs += o.runs
        self.sims += o.sims
        self.ops += o.ops
        self.distinct |= o.distinct
        self.counters.update(o.counters)
        self.faults.update(o.faults)
        self.probes.update(o.probes)
        if len(self.samples) < 6:
            self.samples.extend(o.samples[:6 - len(self.samples)])
        self.simtime += o.simtime
        self.crashpoints += o.crashpoints
        self.states |= o.states
        self.transitions |= o.transitions


def load_prop(pid):
    return importlib.import_module('props.' + pid.lower())


def run_case(mod, sim, case, st):
    """execute one case; returns list of (sig, msg).  Harness problems are
    raised, never turned into verdicts."""
    n0 = len(sim.hung)
    res = mod.check(sim, case, st)
    # bounded liveness, for every property alike: each statement is about what holds "when the command returns", so a
    # command that is still issuing file-system operations after the step cap (20000 ops; C17 sets its own) has not kept it
    hung = sim.hung[n0:]
    if hung and not any('terminat' in s_ for s_, _m in res):
        st.probes['step-cap-hit'] += 1
        res = list(res) + [('%s/no-termination/%s' % (mod.ID, os.path.basename(hung[0][0][0])),
                            'simulated %r was still running after %d file-system operations (step cap): stderr %s' % hung[0])]
    return res


def _worker(args):
    pid, master, idxs, tier, wall = args
    faulthandler.enable()
    faulthandler.dump_traceback_later(max(120, wall * 3), exit=True)
    sys.setrecursionlimit(5000)
    from sim.run import Sim
    mod = load_prop(pid)
    mod.TIER = tier                 # generators may go deeper in the thorough tier
    sim = Sim('%s.%d' % (pid, idxs[0] if idxs else 0))
    st = Stats()
    viols = []
    harness = []
    t0 = time.time()
    done = 0
    try:
        for i in idxs:
            if wall and time.time() - t0 > wall:
                break
            seed = seed_for(master, pid, i)
            rng = random.Random(seed)
            try:
                case = mod.gen(rng)
                case['seed'] = seed
                case['prop'] = pid
                st.runs += 1
                res = run_case(mod, sim, case, st)
            except Exception:
                harness.append((seed, traceback.format_exc()))
                if len(harness) > 3:
                    break
                continue
            done += 1
            if len(st.samples) < 2:
                st.samples.append(sample_of(case))
            pin = getattr(mod, 'pin', None)
            for sig, msg in res:
                viols.append((sig, msg, pin(case, sig) if pin else case, seed))
    finally:
        sim.account_time()
        st.simtime = sim.simtime_total
        st.ops = sim.ops_total          # measured by the simulator itself
        st.sims = sim.sims_total
        sim.close()
        faulthandler.cancel_dump_traceback_later()
    return st, viols, harness, done


def sample_of(case):
    """a compact, readable rendering of a case for the evidence file"""
    out = {}
    for k in ('procs', 'faults', 'crash', 'note', 'sched'):
        if k in case and case[k]:
            out[k] = case[k]
    w = case.get('world', {})
    out['world'] = {'mounts': w.get('mounts'), 'nsteps': len(w.get('steps', [])),
                    'first_steps': w.get('steps', [])[:6]}
    out['seed'] = case.get('seed')
    return json.loads(json.dumps(out, default=str)[:20000]) if len(json.dumps(out, default=str)) < 20000 \
        else {'seed': case.get('seed'), 'truncated': True}


# ---------------------------------------------------------------------------
# known findings
# ---------------------------------------------------------------------------

def load_known():
    p = os.path.join(VERIF, 'known_findings.json')
    if not os.path.exists(p):
        return []
    with open(p) as f:
        return json.load(f)['findings']


def match_known(known, pid, sig):
    for k in known:
        pats = k['signature'] if isinstance(k['signature'], list) else [k['signature']]
        if k.get('property') == pid and k.get('status') == 'open' and \
                any(fnmatch.fnmatchcase(sig, p) for p in pats):
            return k
    return None


# ---------------------------------------------------------------------------
# shrinking (delta debugging over the explicit lists of a case)
# ---------------------------------------------------------------------------

LAST_SHRINK_ERROR = [None]


def _still(mod, sim, case, sig):
    st = Stats()
    try:
        res = run_case(mod, sim, case, st)
    except Exception:
        LAST_SHRINK_ERROR[0] = traceback.format_exc()
        return False
    return any(s == sig for s, _m in res)


def _ddmin_list(lst, test, minlen=0):
    """remove chunks of lst (halving chunk size down to 1) while test(newlist)
    stays true"""
    cur = list(lst)
    chunk = max(1, len(cur) // 2)
    while True:
        i = 0
        changed = False
        while i < len(cur):
            cand = cur[:i] + cur[i + chunk:]
            if minlen <= len(cand) < len(cur) and test(cand):
                cur = cand
                changed = True
            else:
                i += chunk
        if chunk == 1:
            if not changed:
                break
        else:
            chunk = max(1, chunk // 2)
    return cur


def shrink(mod, sim, case, sig, budget_s=40):
    t0 = time.time()
    case = json.loads(json.dumps(case))

    def timeup():
        return time.time() - t0 > budget_s

    def attempt(c):
        if timeup():
            return False
        return _still(mod, sim, c, sig)

    if not attempt(case):
        return case, False       # not reproducible: report as is, caller flags it
    custom = getattr(mod, 'shrink_passes', None)
    for _round in range(3):
        before = json.dumps(case, sort_keys=True)
        # 1. drop whole processes
        if len(case.get('procs', [])) > 1:
            def t_procs(ps):
                c = dict(case, procs=ps)
                return attempt(c)
            case['procs'] = _ddmin_list(case['procs'], t_procs, minlen=1)
        # 2. drop faults, crash, sched
        if case.get('faults'):
            def t_f(fs):
                return attempt(dict(case, faults=fs))
            case['faults'] = _ddmin_list(case['faults'], t_f)
        # 3. drop arguments of each process (keep argv[0])
        for pi in range(len(case.get('procs', []))):
            argv = case['procs'][pi]['argv']
            if len(argv) > 2:
                def t_a(rest, pi=pi):
                    c = json.loads(json.dumps(case))
                    c['procs'][pi]['argv'] = [argv[0]] + rest
                    return attempt(c)
                rest = _ddmin_list(argv[1:], t_a, minlen=0)
                case['procs'][pi]['argv'] = [argv[0]] + rest
        # 4. drop world build steps
        steps = case['world']['steps']

        def t_s(ss):
            c = dict(case, world=dict(case['world'], steps=ss))
            return attempt(c)
        case['world']['steps'] = _ddmin_list(steps, t_s)
        # 5. drop mounts
        if case['world'].get('mounts'):
            def t_m(ms):
                c = dict(case, world=dict(case['world'], mounts=ms))
                return attempt(c)
            case['world']['mounts'] = _ddmin_list(case['world']['mounts'], t_m)
        # 6. drop env vars
        for pi in range(len(case.get('procs', []))):
            env = case['procs'][pi].get('env', {})
            for k in sorted(env):
                c = json.loads(json.dumps(case))
                del c['procs'][pi]['env'][k]
                if attempt(c):
                    case = c
        # 7. property-specific passes
        if custom:
            case = custom(case, attempt)
        if json.dumps(case, sort_keys=True) == before or timeup():
            break
    return case, True


# ---------------------------------------------------------------------------
# main entry
# ---------------------------------------------------------------------------

def write_replay(pid, sig, seed, case, msg, minimised, reproducible):
    d = os.path.join(VERIF, 'replays')
    os.makedirs(d, exist_ok=True)
    h = hashlib.sha256(sig.encode()).hexdigest()[:10]
    path = os.path.join(d, '%s-%s-%d.json' % (pid, h, seed))
    with open(path, 'w') as f:
        json.dump({'property': pid, 'signature': sig, 'message': msg, 'seed': seed,
                   'minimised': minimised, 'reproducible': reproducible, 'case': case},
                  f, indent=1, sort_keys=True)
    return path


def _watchdog(seconds, what):
    """the driver process itself must not hang (a loop in an oracle while minimising, a stuck pool): after ``seconds`` it
    reports a harness error and exits 2 - never 0, never a verdict"""
    import threading

    def fire():
        sys.stderr.write('HARNESS-ERROR watchdog: %s still running after %d s\n' % (what, seconds))
        sys.stderr.flush()
        faulthandler.dump_traceback(all_threads=True)
        os._exit(2)
    t = threading.Timer(seconds, fire)
    t.daemon = True
    t.start()
    return t


def run_check(pid, tier, master_seed, jobs, n_override=None, wall_override=None):
    mod = load_prop(pid)
    t0 = time.time()
    _wd = _watchdog((wall_override or getattr(mod, 'WALL', {}).get(tier, 900)) * 6 + 1200, 'check %s' % pid)
    n = n_override or mod.BUDGET[tier]
    wall = wall_override or getattr(mod, 'WALL', {}).get(tier, 50 if tier == 'quick' else 900)
    jobs = max(1, min(jobs, n))
    # interleaved index assignment: each worker gets a spread of indices
    chunks = [list(range(j, n, jobs)) for j in range(jobs)]
    ctx = multiprocessing.get_context('fork')
    st = Stats()
    viols = []
    harness = []
    done = 0
    with cf.ProcessPoolExecutor(max_workers=jobs, mp_context=ctx) as ex:
        futs = [ex.submit(_worker, (pid, master_seed, ch, tier, wall)) for ch in chunks if ch]
        try:
            for fu in cf.as_completed(futs, timeout=wall * 4 + 300):
                s, v, h, d = fu.result()
                st.merge(s)
                viols.extend(v)
                harness.extend(h)
                done += d
        except cf.TimeoutError:
            harness.append((0, 'worker pool timed out'))
            for p in list(getattr(ex, '_processes', {}).values()):
                try:
                    p.kill()
                except Exception:
                    pass
    # group violations by signature; keep the smallest-seed representative
    by_sig = {}
    for sig, msg, case, seed in viols:
        cur = by_sig.get(sig)
        size = len(json.dumps(case, default=str))
        if cur is None or size < cur[3]:
            by_sig[sig] = (msg, case, seed, size)
    known = load_known()
    new_viol = []
    known_hit = []
    for sig in sorted(by_sig):
        msg, case, seed, _sz = by_sig[sig]
        k = match_known(known, pid, sig)
        if k is not None:
            known_hit.append((sig, k, msg))
        else:
            new_viol.append((sig, msg, case, seed))
    exit_code = 0
    lines = []
    if new_viol:
        from sim.run import Sim
        sim = Sim('shrink.%s' % pid)
        try:
            if len(new_viol) > 12:
                lines.append('(%d distinct violation signatures; minimising and writing replay files for the first 12: %s)'
                             % (len(new_viol), ' '.join(s for s, _m, _c, _s in new_viol[12:40])))
            for sig, msg, case, seed in new_viol[:12]:
                try:
                    small, ok = shrink(mod, sim, case, sig)
                except Exception:
                    small, ok = case, False
                if not ok and LAST_SHRINK_ERROR[0]:
                    lines.append('  (replay in the driver process failed: %s)' % LAST_SHRINK_ERROR[0].strip().splitlines()[-1])
                path = write_replay(pid, sig, seed, small, msg, True, ok)
                lines.append('VIOLATION property=%s replay=%s' % (pid, path))
                lines.append('  signature: %s' % sig)
                lines.append('  detail: %s' % msg[:600])
        finally:
            sim.close()
        exit_code = 1
    grouped = collections.OrderedDict()
    for sig, k, msg in known_hit:
        grouped.setdefault(id(k), (k, []))[1].append(sig)
    for k, sigs in grouped.values():
        lines.append('KNOWN-FINDING: property=%s %s [%d signature(s), e.g. %s]' % (pid, k['what'], len(sigs), sigs[0]))
    if harness:
        for seed, tb in harness[:3]:
            lines.append('HARNESS-ERROR property=%s seed=%s\n%s' % (pid, seed, tb))
        if exit_code == 0:
            exit_code = 2
    wall_s = time.time() - t0
    write_evidence(mod, pid, tier, master_seed, st, done, wall_s, len(new_viol),
                   [s for s, _k, _m in known_hit], jobs)
    for ln in lines:
        print(ln)
    print('%s tier=%s seed=%d cases=%d sims=%d ops=%d distinct_nontrivial=%d wall=%.1fs exit=%d' % (
        pid, tier, master_seed, done, st.sims, st.ops, len(st.distinct), wall_s, exit_code))
    _wd.cancel()
    return exit_code


def write_evidence(mod, pid, tier, seed, st, done, wall_s, nviol, known_sigs, jobs):
    d = os.path.join(VERIF, 'evidence')
    if os.environ.get('VERIF_REPO', '/repo') != '/repo':
        # a sensitivity run against a scratch worktree (tools/seeded.py): evidence files describe /repo only
        return
    os.makedirs(d, exist_ok=True)
    ep = getattr(mod, 'EVAL_PROBE', None)
    cov = {
        'evaluations': int(st.probes.get(ep, done)) if ep else int(done),
        'scenarios': int(done),
        'distinct_nontrivial': len(st.distinct),
        'rule': mod.RULE,
        'samples': st.samples[:4] or [{'note': 'no sample recorded'}],
        'simulated_process_runs': st.sims,
        'interposed_ops': st.ops,
        'runs_per_hour': int(done / wall_s * 3600) if wall_s > 0 else 0,
        'seeds': 'H(VERIF_SEED=%d, %s, i) for i in 0..%d' % (seed, pid, done),
        'simulated_time_s': round(st.simtime, 3),
        'crash_points_visited': st.crashpoints,
        'fault_kinds_fired': dict(st.faults),
        'probes': dict(st.probes),
        'counters': dict(st.counters),
        'known_findings_hit': known_sigs,
        'workers': jobs,
        'components': getattr(mod, 'COMPONENTS', DEFAULT_COMPONENTS),
        'exhaustive': False,
    }
    if st.states:
        cov['states'] = len(st.states)
        cov['transitions'] = len(st.transitions)
    zero = [k for k in getattr(mod, 'PROBES', []) if st.probes.get(k, 0) == 0]
    if zero:
        cov['probes_stuck_at_zero'] = zero
    ev = {
        'property_id': pid,
        'tier': tier,
        'seed': int(seed),
        'level': mod.LEVEL,
        'coverage': cov,
        'assumptions': list(getattr(mod, 'ASSUMPTIONS', [])) + COMMON_ASSUMPTIONS,
        'wall_s': round(wall_s, 2),
        'violations': int(nviol),
    }
    with open(os.path.join(d, '%s.json' % pid), 'w') as f:
        json.dump(ev, f, indent=1, sort_keys=True, default=str)


DEFAULT_COMPONENTS = {
    'real': ['trashcli/** incl. every main()', 'shutil / os.path / os.makedirs / os.walk / argparse / urllib.parse / six / logging',
             'file-system semantics: Linux tmpfs, private directory per worker'],
    'wrapped': ['os.* and open() entry points (record, schedule, crash, fault, path translation)'],
    'simulated': ['mount table, ismount, EXDEV/EBUSY, psutil.disk_partitions', 'clock (datetime.now)',
                  'random.randint', 'getuid, isatty, stdin/stdout/stderr, environment, argv, cwd',
                  'process boundary: in-process call of main(); kill = sticky SimKilled'],
}

COMMON_ASSUMPTIONS = [
    'one wrapped call = one atomic step (local POSIX file system)',
    'injected errors are clean failures (the failing call has no effect); short writes and file-size limits are modelled where a check says so; no lost replies, no power loss (page-cache contents survive a kill)',
    'Python 3.12 code path only',
    'sampling, not proof: scenarios are drawn from seeds',
]


def replay(path):
    with open(path) as f:
        rp = json.load(f)
    pid = rp['property']
    mod = load_prop(pid)
    from sim.run import Sim
    sim = Sim('replay.%s' % pid)
    try:
        st = Stats()
        res = run_case(mod, sim, rp['case'], st)
    finally:
        sim.close()
    sigs = [s for s, _m in res]
    for s, m in res:
        print('  %s\n    %s' % (s, m[:1000]))
    if rp['signature'] in sigs:
        known = load_known()
        k = match_known(known, pid, rp['signature'])
        if k:
            print('KNOWN-FINDING: property=%s %s' % (pid, k['what']))
            return 0
        print('VIOLATION property=%s replay=%s' % (pid, path))
        return 1
    print('replay did not reproduce signature %s (got %s)' % (rp['signature'], sigs))
    return 3
