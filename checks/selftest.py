"""Determinism self-test (DESIGN section 5.1): every seed is run twice in this
interpreter and once more in a fresh interpreter with another PYTHONHASHSEED;
the sha256 of the full event log (ops with results, outputs, exit codes, final
snapshot, verdicts) must be identical.  Exit 0 = deterministic, 2 = not."""
from __future__ import annotations

import glob
import json
import os
import random
import subprocess
import sys

from . import framework as F


def digests(pids, n, master=4242):
    from sim.run import Sim
    out = {}
    sim = Sim('selftest')
    try:
        for pid in pids:
            mod = F.load_prop(pid)
            ds = []
            for i in range(n):
                seed = F.seed_for(master, pid, i)
                case = mod.gen(random.Random(seed))
                case['seed'] = seed
                case['prop'] = pid
                st = F.Stats()
                res = mod.check(sim, case, st)
                ds.append(sim.digest(extra=[sorted(s for s, _m in res), st.sims, st.ops]))
            out[pid] = ds
    finally:
        sim.close()
    return out


def all_props():
    here = os.path.dirname(os.path.dirname(os.path.abspath(__file__)))
    return sorted(os.path.basename(p)[:-3].upper() for p in glob.glob(os.path.join(here, 'props', 'c[0-9][0-9].py')))


def main(tier):
    n = 12 if tier == 'quick' else 150
    pids = all_props()
    if '--emit' in sys.argv:
        json.dump(digests(pids, n), sys.stdout)
        return 0
    a = digests(pids, n)
    b = digests(pids, n)
    env = dict(os.environ, PYTHONHASHSEED='12345')
    p = subprocess.run([sys.executable, '-B', os.path.join(os.path.dirname(__file__), 'main.py'),
                        'selftest', '--tier', tier, '--emit'], env=env, stdout=subprocess.PIPE, timeout=1800)
    c = json.loads(p.stdout.decode())
    bad = 0
    for pid in pids:
        same = a[pid] == b[pid]
        fresh = a[pid] == c.get(pid)
        print('selftest %s: %d seeds, same-process rerun %s, fresh interpreter (other PYTHONHASHSEED) %s'
              % (pid, n, 'identical' if same else 'DIFFERENT', 'identical' if fresh else 'DIFFERENT'))
        if not (same and fresh):
            bad += 1
            for i, (x, y, z) in enumerate(zip(a[pid], b[pid], c.get(pid, []))):
                if not (x == y == z):
                    print('  first divergence at index %d (seed %d)' % (i, F.seed_for(4242, pid, i)))
                    break
    # the verdicts and counters of a check must not depend on how the cases are spread over workers
    for pid in ('C04', 'C12', 'C17'):
        outs = []
        nn = 8 if pid == 'C17' else 120
        for jobs in (1, 3):
            st = F.Stats()
            sigs = []
            for j in range(jobs):
                s_, v_, h_, _d = F._worker((pid, 4242, list(range(j, nn, jobs)), 'quick', 0))
                st.merge(s_)
                sigs.extend(x[0] for x in v_)
                if h_:
                    bad += 1
                    print('HARNESS-ERROR in worker-split self-test: %s' % h_[0][1][-300:])
            outs.append((dict(st.probes), st.ops, st.sims, sorted(sigs)))
        same = outs[0] == outs[1]
        print('selftest %s: %d cases split over 1 and over 3 workers: counters and verdicts %s' % (pid, nn, 'identical' if same else 'DIFFERENT'))
        if not same:
            bad += 1
    if bad:
        print('HARNESS-ERROR determinism self-test failed')
        return 2
    print('selftest ok')
    return 0
