"""Seam audit (DESIGN 5.2b): the same scenarios are executed (a) as real
subprocesses of the real CLI scripts under ``strace -f`` on a scratch
directory and (b) in-process on the virtual kernel; the sequences of mutating
system calls on the sandbox must be the same (modulo the sandbox prefix).
Validates that wrapping the os entry points does not change what the code
does.  Skipped with a note if strace/ptrace is unavailable."""
from __future__ import annotations

import os
import re
import shutil
import subprocess
import sys
import tempfile

SCEN = [
    # (name, world steps (virtual), [ (cmd, args, stdin) ... ])
    ('put-file-and-dir', [['f', '/home/u/w/a.txt', 'hello\n'], ['d', '/home/u/w/dir/sub'], ['f', '/home/u/w/dir/sub/x', 'x'],
                          ['l', '/home/u/w/lnk', 'dir']],
     [('trash-put', ['w/a.txt', 'w/dir', 'w/lnk/'], '')]),
    ('collision-and-restore', [['f', '/home/u/w/foo', '1'], ['f', '/home/u/w2/foo', '2']],
     [('trash-put', ['w/foo'], ''), ('trash-put', ['w2/foo'], ''), ('trash-restore', ['--sort=path', '/'], '0\n')]),
    ('empty-and-rm', [['f', '/home/u/w/a', '1'], ['d', '/home/u/w/d/e'], ['f', '/home/u/w/d/e/f', 'f'], ['f', '/home/u/w/b', '2']],
     [('trash-put', ['w/a', 'w/d', 'w/b'], ''), ('trash-rm', ['a'], ''), ('trash-empty', [], '')]),
]

MUT = re.compile(r'^(?:\d+\s+)?(mkdir|mkdirat|rename|renameat|renameat2|unlink|unlinkat|rmdir|symlink|symlinkat|link|linkat|'
                 r'chmod|fchmodat|openat|open|creat)\((.*)\)\s+=\s+(-?\d+)')


def real_run(base, steps, cmds):
    """-> list of (op, relpath[, relpath2], ok)"""
    from sim import world as Wd
    root = os.path.join(base, 'real')
    os.makedirs(root)
    Wd.build(root, {'steps': [['d', '/home/u']] + steps})
    seq = []
    env = dict(os.environ, HOME=root + '/home/u', PYTHONPATH='/repo', TRASH_VOLUMES=root, COLUMNS='80')
    env.pop('XDG_DATA_HOME', None)
    for cmd, args, stdin in cmds:
        log = os.path.join(base, 'strace.log')
        p = subprocess.run(['strace', '-f', '-y', '-qq', '-o', log, '-e',
                            'trace=mkdir,mkdirat,rename,renameat,renameat2,unlink,unlinkat,rmdir,symlink,symlinkat,link,linkat,chmod,fchmodat,openat,open,creat',
                            sys.executable, '-B', '/repo/' + cmd] + args,
                           cwd=root + '/home/u', env=env, input=stdin.encode(), stdout=subprocess.PIPE, stderr=subprocess.PIPE, timeout=120)
        with open(log, errors='replace') as f:
            for ln in f:
                m = MUT.match(ln)
                if not m:
                    continue
                op, argstr, ret = m.group(1), m.group(2), int(m.group(3))
                paths = re.findall(r'"((?:[^"\\]|\\.)*)"', argstr)
                # *at() calls: the directory descriptor is printed as  5</path/of/dir>  (strace -y)
                fdbases = re.findall(r'(?:^|, )(?:AT_FDCWD|\d+)<([^>]*)>', argstr)
                if op in ('openat', 'open', 'creat'):
                    if not re.search(r'O_CREAT|O_TRUNC|O_WRONLY|O_RDWR', argstr) and op != 'creat':
                        continue
                    kind = 'open_w'
                elif op in ('unlinkat',):
                    kind = 'rmdir' if 'AT_REMOVEDIR' in argstr else 'unlink'
                else:
                    kind = {'mkdirat': 'mkdir', 'renameat': 'rename', 'renameat2': 'rename', 'symlinkat': 'symlink', 'linkat': 'link',
                            'fchmodat': 'chmod'}.get(op, op)
                rel = []
                for i, p in enumerate(paths):
                    b = fdbases[min(i, len(fdbases) - 1)] if fdbases else root + '/home/u'
                    rel.append(canon(root, b, p))
                if kind == 'symlink':
                    rel = rel[1:]        # first string is the target text
                if not any(r is not None for r in rel):
                    continue
                seq.append((kind, tuple(r for r in rel if r is not None), ret >= 0))
    return seq


def canon(root, cwd, p):
    if not p.startswith('/'):
        p = os.path.join(cwd, p)
    p = os.path.normpath(p)
    if p == root or p.startswith(root + '/'):
        return p[len(root):] or '/'
    return None


def sim_run(steps, cmds):
    from sim.run import Sim
    from sim.vkernel import K, MUTATING
    sim = Sim('seamaudit')
    try:
        sim.setup({'world': {'mounts': [], 'steps': [['d', '/home/u']] + steps}})
        seq = []
        for cmd, args, stdin in cmds:
            r = sim.run({'argv': [cmd] + args, 'env': {'HOME': '/home/u', 'TRASH_VOLUMES': '/'}, 'cwd': '/home/u', 'stdin': stdin, 'uid': os.getuid()})
            for ev in r.trace:
                k = ev[2]
                if k in ('mkdir', 'rename', 'unlink', 'remove', 'rmdir', 'symlink', 'link', 'chmod', 'open_w'):
                    if k == 'remove':
                        k = 'unlink'
                    paths = [os.path.normpath(p) for p in (ev[3], ev[4]) if isinstance(p, str)]
                    ok = not (isinstance(ev[6], str) and ev[6].startswith('E:'))
                    seq.append((k, tuple(paths), ok))
        return seq
    finally:
        sim.close()


def main():
    if shutil.which('strace') is None:
        print('seamaudit: strace not installed - skipped')
        return 0
    base = tempfile.mkdtemp(prefix='tcseam.', dir='/dev/shm' if os.path.isdir('/dev/shm') else None)
    bad = 0
    try:
        probe = subprocess.run(['strace', '-qq', '-o', os.path.join(base, 'p.log'), 'true'], stdout=subprocess.PIPE, stderr=subprocess.PIPE)
        if probe.returncode != 0:
            print('seamaudit: ptrace not permitted here - skipped (%s)' % probe.stderr.decode()[:100])
            return 0
        for name, steps, cmds in SCEN:
            b = os.path.join(base, name)
            os.makedirs(b)
            real = real_run(b, steps, cmds)
            sim = sim_run(steps, cmds)
            # the real interpreter also writes nothing else inside the sandbox; compare
            if real == sim:
                print('seamaudit %s: %d mutating calls, identical sequence in strace and in the simulation' % (name, len(real)))
            elif sorted(real) == sorted(sim):
                # the order in which a directory is listed differs (tmpfs order vs the simulated permutation)
                print('seamaudit %s: %d mutating calls, same multiset in strace and in the simulation (directory order differs)' % (name, len(real)))
            else:
                bad += 1
                print('seamaudit %s: DIFFERENT' % name)
                for i in range(max(len(real), len(sim))):
                    a = real[i] if i < len(real) else None
                    c = sim[i] if i < len(sim) else None
                    if a != c:
                        print('  #%d strace %r\n      sim    %r' % (i, a, c))
                        break
    finally:
        shutil.rmtree(base, ignore_errors=True)
    if bad:
        print('HARNESS-ERROR seam audit failed')
        return 2
    print('seamaudit ok')
    return 0
