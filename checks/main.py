"""CLI: ./check <ID> [--tier quick|thorough] [--seed N] [--jobs N] [--n N] [--replay FILE]

exit 0  property held on everything explored (KNOWN-FINDING lines allowed)
exit 1  VIOLATION property=<id> replay=<path>
exit 2  harness error / timeout (never a verdict)
"""
import argparse
import os
import sys

HERE = os.path.dirname(os.path.abspath(__file__))
sys.path.insert(0, os.path.dirname(HERE))


def main():
    ap = argparse.ArgumentParser()
    ap.add_argument('prop')
    ap.add_argument('--tier', default=os.environ.get('VERIF_TIER', 'quick'), choices=['quick', 'thorough'])
    ap.add_argument('--seed', type=int, default=None)
    ap.add_argument('--jobs', type=int, default=int(os.environ.get('VERIF_JOBS', '0')) or (os.cpu_count() or 4))
    ap.add_argument('--n', type=int, default=None)
    ap.add_argument('--wall', type=int, default=None)
    ap.add_argument('--replay', default=None)
    ap.add_argument('--emit', action='store_true')
    a = ap.parse_args()
    # the registered checks always test /repo; VERIF_REPO is only used by
    # tools/seeded.py to evaluate a seeded change in a scratch worktree
    repo = os.environ.get('VERIF_REPO', '/repo')
    sys.path.insert(0, repo)
    import trashcli
    if not trashcli.__file__.startswith(repo + '/'):
        print('HARNESS-ERROR trashcli is not imported from %s: %s' % (repo, trashcli.__file__))
        return 2
    from checks import framework as F
    if a.prop == 'seamaudit':
        from checks import seamaudit
        return seamaudit.main()
    if a.prop == 'selftest':
        from checks import selftest
        return selftest.main(a.tier)
    if a.replay:
        return F.replay(a.replay)
    seed = a.seed
    if seed is None:
        seed = int(os.environ.get('VERIF_SEED', '20260926'))
    return F.run_check(a.prop.upper(), a.tier, seed, a.jobs, a.n, a.wall)


if __name__ == '__main__':
    try:
        rc = main()
    except SystemExit:
        raise
    except BaseException:
        import traceback
        traceback.print_exc()
        print('HARNESS-ERROR uncaught exception in the check driver')
        rc = 2
    sys.stdout.flush()
    os._exit(rc)
