"""Fault engine (DESIGN 2.4): from the fault-free trace of a scenario derive
  - one single-shot fault per op x applicable errno,
  - persistent conditions (read-only volume, full volume, directory not
    writable, directory not searchable, immutable entry, I/O errors below a
    directory),
  - seeded pairs of single shots,
and re-run the scenario on an identically rebuilt world under each."""
from __future__ import annotations

import errno as E
import posixpath

READ_ERR = [E.EACCES, E.EIO, E.ELOOP, E.ENAMETOOLONG, E.ENOMEM]
APPLICABLE = {
    'lstat': READ_ERR, 'stat': READ_ERR, 'access': [E.EACCES, E.EIO], 'readlink': [E.EACCES, E.EIO],
    'listdir': [E.EACCES, E.EIO, E.EMFILE], 'scandir': [E.EACCES, E.EIO, E.EMFILE], 'getcwd': [E.ENOENT, E.EACCES],
    'open': [E.EACCES, E.EIO, E.EMFILE, E.ENFILE, E.EINTR],
    'fstat': [E.EIO], 'listxattr': [E.ENOTSUP, E.EACCES], 'getxattr': [E.ENOTSUP],
    'mkdir': [E.EACCES, E.EROFS, E.ENOSPC, E.EDQUOT, E.EIO, E.ENAMETOOLONG, E.EMLINK, E.EPERM, E.ENOENT, E.ESTALE],
    'open_w': [E.EACCES, E.EROFS, E.ENOSPC, E.EDQUOT, E.EIO, E.ENAMETOOLONG, E.EMFILE, E.ENOMEM, E.EINTR, E.EPERM, E.ENOENT, E.ESTALE],
    'write': [E.ENOSPC, E.EDQUOT, E.EIO, E.EFBIG, E.EINTR], 'fwrite': [E.ENOSPC, E.EDQUOT, E.EIO],
    'close': [E.EIO, E.ENOSPC, E.EINTR],
    'rename': [E.EACCES, E.EPERM, E.EROFS, E.ENOSPC, E.EIO, E.EBUSY, E.EXDEV, E.ENAMETOOLONG, E.EMLINK, E.EDQUOT, E.ENOTEMPTY,
               # ENOENT / ESTALE although both ends exist: a network or FUSE file system whose handle went stale, a directory removed
               # and recreated by somebody else in between
               E.ENOENT, E.ESTALE],
    'unlink': [E.EACCES, E.EPERM, E.EROFS, E.EIO, E.EBUSY], 'remove': [E.EACCES, E.EPERM, E.EROFS, E.EIO, E.EBUSY],
    'rmdir': [E.EACCES, E.EPERM, E.EROFS, E.EIO, E.EBUSY, E.ENOTEMPTY],
    'symlink': [E.EACCES, E.ENOSPC, E.EROFS, E.EIO, E.EPERM], 'sendfile': [E.ENOSPC, E.EIO, E.EINVAL],
    'utime': [E.EPERM, E.EACCES, E.EROFS], 'chmod': [E.EPERM, E.EROFS], 'setxattr': [E.ENOTSUP, E.ENOSPC, E.EPERM],
}


def single_shots(trace, rng, per_read=1):
    """[(fault rule, description)] for every op of the trace.  An op is
    identified by (name, path, k-th occurrence of that pair), which survives
    shrinking of the world better than an absolute op index."""
    out = []
    seen = {}
    for ev in trace:
        if ev[2] in ('KILL', 'STEPLIMIT'):
            continue
        key = (ev[2], ev[3])
        k = seen.get(key, 0)
        seen[key] = k + 1
        errs = APPLICABLE.get(ev[2])
        if not errs or not isinstance(ev[3], str):
            continue
        mutating = ev[2] not in ('lstat', 'stat', 'access', 'readlink', 'listdir', 'scandir', 'getcwd', 'open', 'fstat', 'listxattr', 'getxattr')
        chosen = errs if mutating else rng.sample(errs, min(per_read, len(errs)))
        for e in chosen:
            out.append(({'kind': 'shot', 'pid': 1, 'op': ev[2], 'path': ev[3], 'k': k, 'errno': e}, (ev[2], E.errorcode[e], ev[3])))
        if ev[2] == 'write':
            # a short write: no error, write(2) returns a smaller count than it was given
            out.append(({'kind': 'shot', 'pid': 1, 'op': 'write', 'path': ev[3], 'k': k, 'errno': 0, 'short': True}, ('write', 'SHORT', ev[3])))
    return out


def conditions(trace, mounts, resolver):
    """persistent conditions derived from what the fault-free run touched"""
    vols = set()
    dirs = set()
    entries = set()
    for ev in trace:
        p = ev[3]
        if not isinstance(p, str) or not p.startswith('/'):
            continue
        if ev[2] in ('mkdir', 'open_w', 'rename', 'unlink', 'remove', 'rmdir', 'symlink'):
            res = resolver(p)
            dirs.add(posixpath.dirname(res) or '/')
            best = '/'
            for m in mounts:
                if m != '/' and (res == m or res.startswith(m + '/')) and len(m) > len(best):
                    best = m
            vols.add(best)
            if ev[2] == 'rename':
                entries.add(res)
                if isinstance(ev[4], str):
                    dirs.add(posixpath.dirname(resolver(ev[4])) or '/')
    out = []
    for v in sorted(vols):
        out.append(({'kind': 'cond', 'what': 'readonly', 'volume': v}, ('cond', 'readonly', v)))
        out.append(({'kind': 'cond', 'what': 'full', 'volume': v}, ('cond', 'full', v)))
        out.append(({'kind': 'cond', 'what': 'full', 'volume': v, 'errno': E.EDQUOT}, ('cond', 'quota', v)))
    for d in sorted(dirs):
        out.append(({'kind': 'cond', 'what': 'dir_not_writable', 'dir': d}, ('cond', 'dir_not_writable', d)))
        out.append(({'kind': 'cond', 'what': 'eio_under', 'dir': d}, ('cond', 'eio_under', d)))
        out.append(({'kind': 'cond', 'what': 'dir_not_searchable', 'dir': d}, ('cond', 'dir_not_searchable', d)))
        out.append(({'kind': 'cond', 'what': 'dir_not_readable', 'dir': d}, ('cond', 'dir_not_readable', d)))
    for d in sorted(set(posixpath.dirname(ev[3]) for ev in trace if ev[2] == 'write' and isinstance(ev[3], str) and ev[3].startswith('/'))):
        # (a file-size limit / quota boundary that falls inside what is written there)
        out.append(({'kind': 'cond', 'what': 'file_size_limit', 'dir': d, 'limit': 40}, ('cond', 'file_size_limit', d)))
    for x in sorted(entries):
        out.append(({'kind': 'cond', 'what': 'immutable', 'entry': x}, ('cond', 'immutable', x)))
    return out
