"""Crash engine (DESIGN 2.5): for a scenario, run the target process
fault-free to learn its number of mutating ops n, then re-run it n+1 times on
an identically rebuilt world with a sticky kill before the k-th mutating op
(k = 0..n); k = n is the uninterrupted run.  The disk can only change at
mutating ops, so these are all distinct crash states of the scenario."""
from __future__ import annotations

import copy

from sim import world as Wd


def run_prefix(sim, case, upto, st):
    for spec in case['procs'][:upto]:
        if 'foreign' in spec:
            Wd.build(sim.root, {'steps': spec['foreign']})
        else:
            sim.run(spec)
            st.sims += 1


def sweep(sim, case, st, target=None, max_points=400, modes=('kill', 'intr')):
    """yields (k, n, before_snapshot, result, crash_snapshot) for every crash
    point of process ``target`` (default: last process of the case).  Two
    ways of dying per point: 'kill' = SIGKILL (sticky, nothing of the process
    runs any more) and 'intr' = SIGINT (KeyboardInterrupt raised once; the
    process's own except/finally code runs and its calls take effect).  For
    'intr' k is reported as ('intr', k)."""
    procs = case['procs']
    ti = len(procs) - 1 if target is None else target
    sim.setup(case)
    run_prefix(sim, case, ti, st)
    before = sim.snap()
    r0 = sim.run(procs[ti])
    st.sims += 1
    st.ops += r0.nops
    n = r0.nmut
    final = sim.snap()
    yield ('full', n, before, r0, final)
    ks = list(range(n + 1))
    if case.get('crash_sample'):
        # a scenario with thousands of ops: a few evenly spaced points plus the points the caller derived from the recorded
        # history of the undisturbed run (case['crash_extra'], set by the check while it holds the 'full' result)
        max_points = int(case['crash_sample'])
    if len(ks) > max_points:
        step = len(ks) / float(max_points)
        ks = sorted(set(int(i * step) for i in range(max_points)) | {0, n})
    ks = sorted(set(ks) | set(k for k in (case.get('crash_extra') or []) if 0 <= k <= n))
    only = case.get('only_crash')      # replay of one pinned crash point
    for mode in modes:
        for k in ks:
            if only is not None and [mode, k] != list(only):
                continue
            if mode == 'intr' and k >= n:
                continue
            sim.setup(case)
            run_prefix(sim, case, ti, st)
            spec = dict(procs[ti], **({'kill_at_mut': k} if mode == 'kill' else {'intr_at_mut': k}))
            r = sim.run(spec)
            st.sims += 1
            st.ops += r.nops
            st.crashpoints += 1
            yield (k if mode == 'kill' else ('intr', k), n, before, r, sim.snap())


def info_removed_before_payload(trace, pid=None):
    """history check on the recorded op sequence of an undisturbed purge: crash points (numbers of mutating ops completed) at
    which the process has already removed info/N.trashinfo although a later successful mutating op of the same run still works
    on files/N (the payload was not completely gone yet).  Crash states are prefixes of the mutating-op sequence, so a kill at
    any of these points leaves a payload without its .trashinfo.  Returns [(k, trash dir, N)]."""
    from sim.vkernel import MUTATING
    mi = -1
    info_gone = {}
    last_payload = {}
    for ev in trace:
        if ev[2] not in MUTATING or (pid is not None and ev[1] != pid):
            continue
        mi += 1
        pth = ev[3]
        if not isinstance(pth, str) or ev[6] is not None:
            continue
        if ev[2] in ('unlink', 'remove', 'rename') and '/info/' in pth and pth.endswith('.trashinfo'):
            T, b = pth.rsplit('/info/', 1)
            if '/' not in b:
                info_gone.setdefault((T, b[:-len('.trashinfo')]), mi)
        elif '/files/' in pth:
            T, rest = pth.split('/files/', 1)
            if rest:
                last_payload[(T, rest.split('/')[0])] = mi
    out = []
    for key, i in sorted(info_gone.items(), key=lambda kv: kv[1]):
        if last_payload.get(key, -1) > i:
            out.append((i + 1, key[0], key[1]))
    return out
